/* ref_scalar.h - reference encoders written from the documented wire formats.
 * Shares no code with the library. Each returns the encoded length. */
#ifndef REF_SCALAR_H
#define REF_SCALAR_H
#include <stdint.h>
#include <string.h>

static inline int ref_bytes_of(uint64_t x) { /* minimal little-endian byte count, >= 1 */
    int n = 1;
    while (x >>= 8) {
        n++;
    }
    return n;
}
static inline void ref_le(uint8_t *o, uint64_t x, int w) {
    for (int i = 0; i < w; i++) {
        o[i] = (uint8_t)(x >> (8 * i));
    }
}
static inline void ref_be(uint8_t *o, uint64_t x, int w) {
    for (int i = 0; i < w; i++) {
        o[i] = (uint8_t)(x >> (8 * (w - 1 - i)));
    }
}

/* sqlite4 varint: the text in src/varintTagged.c lines 21-97 */
static inline int ref_tagged(uint64_t v, uint8_t *o) {
    if (v <= 240) {
        o[0] = (uint8_t)v;
        return 1;
    }
    if (v <= 2287) {
        o[0] = (uint8_t)((v - 240) / 256 + 241);
        o[1] = (uint8_t)((v - 240) % 256);
        return 2;
    }
    if (v <= 67823) {
        o[0] = 249;
        o[1] = (uint8_t)((v - 2288) / 256);
        o[2] = (uint8_t)((v - 2288) % 256);
        return 3;
    }
    int payload = ref_bytes_of(v);
    if (payload < 3) {
        payload = 3;
    }
    o[0] = (uint8_t)(250 + (payload - 3));
    ref_be(o + 1, v, payload);
    return 1 + payload;
}

/* sqlite3-style: big-endian 7-bit groups, ninth byte carries 8 bits */
static inline int ref_chained(uint64_t v, uint8_t *o) {
    if (v >> 56) {
        o[8] = (uint8_t)(v & 0xff);
        uint64_t r = v >> 8;
        for (int i = 7; i >= 0; i--) {
            o[i] = (uint8_t)(0x80 | (r & 0x7f));
            r >>= 7;
        }
        return 9;
    }
    int n = 1;
    for (uint64_t t = v >> 7; t; t >>= 7) {
        n++;
    }
    for (int i = 0; i < n; i++) {
        uint8_t g = (uint8_t)((v >> (7 * (n - 1 - i))) & 0x7f);
        o[i] = (i == n - 1) ? g : (uint8_t)(g | 0x80);
    }
    return n;
}

/* leveldb-style: little-endian base-128, capped at nine bytes (ninth holds 8 bits) */
static inline int ref_chained_simple(uint64_t v, uint8_t *o) {
    int n = 0;
    while (n < 8 && v >= 128) {
        o[n++] = (uint8_t)((v & 127) | 128);
        v >>= 7;
    }
    o[n++] = (uint8_t)v;
    return n;
}

static inline int ref_external_le(uint64_t v, uint8_t *o) {
    int w = ref_bytes_of(v);
    ref_le(o, v, w);
    return w;
}
static inline int ref_external_be(uint64_t v, uint8_t *o) {
    int w = ref_bytes_of(v);
    ref_be(o, v, w);
    return w;
}

/* Split: 00pppppp | 01pppppp q | 10000www LE(v-16446) */
static inline int ref_split(uint64_t v, uint8_t *o) {
    if (v <= 63) {
        o[0] = (uint8_t)v;
        return 1;
    }
    if (v <= 16446) {
        uint64_t x = v - 63;
        o[0] = (uint8_t)(0x40 | (x >> 8));
        o[1] = (uint8_t)x;
        return 2;
    }
    uint64_t x = v - 16446;
    int w = ref_bytes_of(x);
    o[0] = (uint8_t)(0x80 | w);
    ref_le(o + 1, x, w);
    return 1 + w;
}
/* SplitFull: 00 | 01 q | 10 q r | 11000www LE(v-4210749), never-shrink: w >= 2 */
static inline int ref_split_full(uint64_t v, uint8_t *o) {
    if (v <= 63) {
        o[0] = (uint8_t)v;
        return 1;
    }
    if (v <= 16446) {
        uint64_t x = v - 63;
        o[0] = (uint8_t)(0x40 | (x >> 8));
        o[1] = (uint8_t)x;
        return 2;
    }
    if (v <= 4210749) {
        uint64_t x = v - 16446;
        o[0] = (uint8_t)(0x80 | (x >> 16));
        o[1] = (uint8_t)(x >> 8);
        o[2] = (uint8_t)x;
        return 3;
    }
    uint64_t x = v - 4210749;
    int w = ref_bytes_of(x);
#ifndef VARINT_SPLIT_FULL_USE_MAXIMUM_RANGE
    /* default: never shrink. With the documented switch the 255 values 4210750..4211004 take the 2-byte form c1 q */
    if (w < 2) {
        w = 2;
    }
#endif
    o[0] = (uint8_t)(0xc0 | w);
    ref_le(o + 1, x, w);
    return 1 + w;
}
/* SplitFullNoZero: values >= 1; one byte stores 1..64 as v-1 */
static inline int ref_split_full_nz(uint64_t v, uint8_t *o) {
    if (v <= 64) {
        o[0] = (uint8_t)(v - 1);
        return 1;
    }
    if (v <= 16447) {
        uint64_t x = v - 64;
        o[0] = (uint8_t)(0x40 | (x >> 8));
        o[1] = (uint8_t)x;
        return 2;
    }
    if (v <= 4210750) {
        uint64_t x = v - 16447;
        o[0] = (uint8_t)(0x80 | (x >> 16));
        o[1] = (uint8_t)(x >> 8);
        o[2] = (uint8_t)x;
        return 3;
    }
    uint64_t x = v - 4210750;
    int w = ref_bytes_of(x);
#ifndef VARINT_SPLIT_FULL_NO_ZERO_USE_MAXIMUM_RANGE
    if (w < 2) {
        w = 2;
    }
#endif
    o[0] = (uint8_t)(0xc0 | w);
    ref_le(o + 1, x, w);
    return 1 + w;
}
/* SplitFull16: 00 q (14 bits) | 01 q r | 10 q r s | 11000www LE(v-1077952509), w >= 4 */
static inline int ref_split_full16(uint64_t v, uint8_t *o) {
    if (v <= 16383) {
        o[0] = (uint8_t)(v >> 8);
        o[1] = (uint8_t)v;
        return 2;
    }
    if (v <= 4210686) {
        uint64_t x = v - 16383;
        o[0] = (uint8_t)(0x40 | (x >> 16));
        o[1] = (uint8_t)(x >> 8);
        o[2] = (uint8_t)x;
        return 3;
    }
    if (v <= 1077952509ULL) {
        uint64_t x = v - 4210686;
        o[0] = (uint8_t)(0x80 | (x >> 24));
        o[1] = (uint8_t)(x >> 16);
        o[2] = (uint8_t)(x >> 8);
        o[3] = (uint8_t)x;
        return 4;
    }
    uint64_t x = v - 1077952509ULL;
    int w = ref_bytes_of(x);
    if (w < 4) {
        w = 4;
    }
    o[0] = (uint8_t)(0xc0 | w);
    ref_le(o + 1, x, w);
    return 1 + w;
}
/* reversed layout of a split-family encoding: type byte last. Embedded (first-type)
 * encodings are the forward bytes in reverse order; external (second-type) encodings are
 * the little-endian payload followed by the type byte. `is_var` = top two bits select VAR. */
static inline void ref_split_reverse(const uint8_t *fwd, int len, int is_var, uint8_t *o) {
    if (is_var) {
        memcpy(o, fwd + 1, (size_t)(len - 1));
        o[len - 1] = fwd[0];
    } else {
        for (int i = 0; i < len; i++) {
            o[i] = fwd[len - 1 - i];
        }
    }
}

/* zig-zag: 0,-1,1,-2,2 ... -> 0,1,2,3,4 */
static inline uint64_t ref_zigzag(int64_t n) {
    return n >= 0 ? ((uint64_t)n) * 2 : ((uint64_t)(-(n + 1))) * 2 + 1;
}

/* Elias gamma / delta as bit strings (one char per bit, MSB first); return bit count */
static inline int ref_floor_log2(uint64_t n) {
    int k = -1;
    while (n) {
        n >>= 1;
        k++;
    }
    return k;
}
static inline int ref_elias_gamma_bits(uint64_t n, char *bits) {
    int k = ref_floor_log2(n);
    int p = 0;
    for (int i = 0; i < k; i++) {
        bits[p++] = 0;
    }
    for (int i = k; i >= 0; i--) {
        bits[p++] = (char)((n >> i) & 1);
    }
    return p;
}
static inline int ref_elias_delta_bits(uint64_t n, char *bits) {
    int k = ref_floor_log2(n);
    int p = ref_elias_gamma_bits((uint64_t)k + 1, bits);
    for (int i = k - 1; i >= 0; i--) {
        bits[p++] = (char)((n >> i) & 1);
    }
    return p;
}

#endif
