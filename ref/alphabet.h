/* alphabet.h - the bounded value spaces (deterministic, no randomness).
 *
 * V64 = boundary windows  U  5-symbols-per-byte product  U  walking bits  U  byte sweeps
 *       (U adjacent-byte-pair sweeps and 2^16-wide boundary windows in the thorough tier).
 * The exhaustive prefix [0, 2^P) is iterated directly by the harness, not stored.
 */
#ifndef ALPHABET_H
#define ALPHABET_H
#include <stdint.h>
#include <stdlib.h>
#include <string.h>

typedef struct {
    uint64_t *v;
    size_t n, cap;
} u64vec;

static void u64vec_push(u64vec *a, uint64_t x) {
    if (a->n == a->cap) {
        a->cap = a->cap ? a->cap * 2 : 1024;
        a->v = realloc(a->v, a->cap * sizeof(uint64_t));
    }
    a->v[a->n++] = x;
}
static int u64cmp(const void *a, const void *b) {
    uint64_t x = *(const uint64_t *)a, y = *(const uint64_t *)b;
    return (x > y) - (x < y);
}
static void u64vec_sortuniq(u64vec *a) {
    if (a->n == 0) {
        return;
    }
    qsort(a->v, a->n, sizeof(uint64_t), u64cmp);
    size_t w = 1;
    for (size_t i = 1; i < a->n; i++) {
        if (a->v[i] != a->v[w - 1]) {
            a->v[w++] = a->v[i];
        }
    }
    a->n = w;
}

/* every boundary of any scalar family (class maxima and the value after) */
static void alpha_boundaries(u64vec *b) {
    for (int k = 0; k < 64; k++) {
        u64vec_push(b, 1ULL << k);
    }
    u64vec_push(b, UINT64_MAX);
    u64vec_push(b, (uint64_t)INT64_MAX);
    u64vec_push(b, 0);
    /* tagged maxima */
    static const uint64_t t[] = {240, 2287, 67823, 16777215ULL, 4294967295ULL};
    for (size_t i = 0; i < sizeof t / sizeof *t; i++) {
        u64vec_push(b, t[i]);
    }
    /* split levels */
    static const uint64_t lv[] = {63,      64,      16383,      16446,     16447,
                                  4210686, 4210749, 4210750,    1077952509ULL,
                                  4211004, 4211005, 4210686 + 255, 16701, 81981};
    for (size_t i = 0; i < sizeof lv / sizeof *lv; i++) {
        u64vec_push(b, lv[i]);
    }
    static const uint64_t base[] = {16446, 4210749, 4210750, 1077952509ULL, 0, 240, 2288};
    for (size_t i = 0; i < sizeof base / sizeof *base; i++) {
        for (int k = 1; k <= 8; k++) {
            uint64_t add = (k == 8) ? UINT64_MAX : ((1ULL << (8 * k)) - 1);
            uint64_t s = base[i] + add;
            if (s >= base[i]) {
                u64vec_push(b, s);
            }
        }
    }
}

/* boundary part only: windows +-w around every boundary (small; used for pair products) */
static void alpha_boundary_windows(u64vec *out, int w) {
    u64vec b = {0};
    alpha_boundaries(&b);
    for (size_t i = 0; i < b.n; i++) {
        for (int d = -w; d <= w; d++) {
            uint64_t x = b.v[i] + (uint64_t)(int64_t)d;
            /* skip wraparound */
            if (d < 0 && x > b.v[i]) {
                continue;
            }
            if (d > 0 && x < b.v[i]) {
                continue;
            }
            u64vec_push(out, x);
        }
    }
    free(b.v);
    u64vec_sortuniq(out);
}

static void alpha_v64(u64vec *out, int thorough) {
    alpha_boundary_windows(out, 4);
    /* (b) byte-pattern product: every byte in {00,01,7f,80,ff} */
    static const uint8_t sym[5] = {0x00, 0x01, 0x7f, 0x80, 0xff};
    for (uint32_t i = 0; i < 390625; i++) {
        uint32_t t = i;
        uint64_t x = 0;
        for (int k = 0; k < 8; k++) {
            x |= (uint64_t)sym[t % 5] << (8 * k);
            t /= 5;
        }
        u64vec_push(out, x);
    }
    /* (c) walking ones / zeros, alternating */
    for (int k = 0; k < 64; k++) {
        u64vec_push(out, 1ULL << k);
        u64vec_push(out, ~(1ULL << k));
        u64vec_push(out, (k == 63) ? UINT64_MAX : ((1ULL << (k + 1)) - 1));
        u64vec_push(out, ~((k == 63) ? UINT64_MAX : ((1ULL << (k + 1)) - 1)));
    }
    u64vec_push(out, 0x5555555555555555ULL);
    u64vec_push(out, 0xAAAAAAAAAAAAAAAAULL);
    u64vec_push(out, 0x0123456789abcdefULL);
    u64vec_push(out, 0xfedcba9876543210ULL);
    /* (c') byte sweeps: one byte position takes all 256 values over three backgrounds */
    static const uint64_t bg[3] = {0, UINT64_MAX, 0xa5a5a5a5a5a5a5a5ULL};
    for (int g = 0; g < 3; g++) {
        for (int pos = 0; pos < 8; pos++) {
            for (uint64_t bv = 0; bv < 256; bv++) {
                uint64_t x = (bg[g] & ~(0xffULL << (8 * pos))) | (bv << (8 * pos));
                u64vec_push(out, x);
                /* also with everything above this byte cleared (value ends in this byte) */
                if (pos < 7) {
                    u64vec_push(out, x & ((1ULL << (8 * (pos + 1))) - 1));
                }
            }
        }
    }
    if (thorough) {
        /* adjacent byte pairs take all 65536 values over two backgrounds */
        for (int g = 0; g < 2; g++) {
            for (int pos = 0; pos < 7; pos++) {
                for (uint64_t pv = 0; pv < 65536; pv++) {
                    uint64_t x = (bg[g] & ~(0xffffULL << (8 * pos))) | (pv << (8 * pos));
                    u64vec_push(out, x);
                    if (g == 0) {
                        continue;
                    }
                    u64vec_push(out, x & ((pos == 6) ? UINT64_MAX : ((1ULL << (8 * (pos + 2))) - 1)));
                }
            }
        }
        /* 2^14-wide windows below and above each boundary */
        u64vec b = {0};
        alpha_boundaries(&b);
        u64vec_sortuniq(&b);
        for (size_t i = 0; i < b.n; i++) {
            for (int64_t d = -(1 << 14); d <= (1 << 14); d++) {
                uint64_t x = b.v[i] + (uint64_t)d;
                if (d < 0 && x > b.v[i]) {
                    continue;
                }
                if (d > 0 && x < b.v[i]) {
                    continue;
                }
                u64vec_push(out, x);
            }
        }
        free(b.v);
    }
    u64vec_sortuniq(out);
}

#endif
