/* corpus.h - the array corpus A: a deterministic indexed sequence of uint64 arrays.
 *
 *  S1  small scope, complete: all arrays of length 1-3 over a 20-value boundary alphabet;
 *      all arrays of length 4-6 over {0,1,255,2^64-1}; all arrays of length <= 8 over {1,2}.
 *  S2  structured families, complete product of (length class) x shape x step x base x outlier
 *      pattern x outlier magnitude, the product being thinned for the longer length classes.
 *  S3  adversarial families derived from reading the code (PFOR marker collision, sampler stride
 *      periodicity, bitmap-selection edge cases, 9-byte headers).
 *
 * Iteration: corpus_iter it; corpus_begin(&it, tier_flags); while (corpus_next(&it)) use it.v / it.n / it.desc.
 */
#ifndef CORPUS_H
#define CORPUS_H
#include <inttypes.h>
#include <stdint.h>
#include <stdio.h>
#include <stdlib.h>
#include <string.h>

#define CORPUS_MAXN 70000

typedef struct corpus_iter {
    uint64_t *v; /* current array (owned; capacity CORPUS_MAXN) */
    size_t n;
    char desc[200];
    char family[24]; /* S1a S1b S1c S2s S2m S2l S3* */
    /* internal */
    int thorough;
    size_t maxn;
    int stage;
    uint64_t i;
} corpus_iter;

static const uint64_t CORPUS_A20[20] = {0,
                                        1,
                                        2,
                                        127,
                                        128,
                                        240,
                                        241,
                                        255,
                                        256,
                                        2287,
                                        2288,
                                        65535,
                                        65536,
                                        67824,
                                        16777216ULL,
                                        4294967295ULL,
                                        4294967296ULL,
                                        0x00ffffffffffffffULL,
                                        0x8000000000000000ULL,
                                        0xffffffffffffffffULL};
static const uint64_t CORPUS_A4[4] = {0, 1, 255, 0xffffffffffffffffULL};

static const size_t CORPUS_N_SMALL[] = {1,  2,  3,  4,  5,  6,  7,  8,  9,  10, 11, 12, 13, 14, 15, 16, 17,
                                        18, 19, 20, 21, 22, 23, 24, 31, 32, 33, 63, 64, 65};
static const size_t CORPUS_N_MED[] = {100, 127, 128, 129, 130, 240, 241, 255, 256, 257, 383, 384, 385};
static const size_t CORPUS_N_LARGE[] = {2287, 2288, 4095, 4096, 4097, 10000, 10001, 20000};
static const size_t CORPUS_N_HUGE[] = {65535, 65536, 65537, 67823, 67824, 67825};

enum { SH_CONST, SH_ASC, SH_DESC, SH_SAW, SH_TWOLEVEL, SH_PERM, SH_DUP, SH_KCYCLE, SH_N };
static const char *CORPUS_SHAPE[SH_N] = {"const", "asc", "desc", "saw7", "twolevel", "perm", "asc+dup", "cycle5"};

static const uint64_t CORPUS_STEP[6] = {0, 1, 255, 256, 1ULL << 31, 1ULL << 56};
static const uint64_t CORPUS_BASE[8] = {0, 1, 255, 65533, 4294967294ULL, (1ULL << 56) - 1, 1ULL << 63, 0 /* = max - n*step */};
enum { OUT_NONE, OUT_FIRST, OUT_MID, OUT_LAST, OUT_5PCT, OUT_6PCT, OUT_N };
static const char *CORPUS_OUT[OUT_N] = {"none", "first", "mid", "last", "5pct", "6pct"};
static const uint64_t CORPUS_MAG[4] = {255, 65536, 1ULL << 56, UINT64_MAX};

static void corpus_begin(corpus_iter *it, int thorough, size_t maxn) {
    memset(it, 0, sizeof *it);
    it->v = malloc(sizeof(uint64_t) * CORPUS_MAXN);
    it->thorough = thorough;
    it->maxn = maxn ? maxn : CORPUS_MAXN;
}
static void corpus_end(corpus_iter *it) {
    free(it->v);
    it->v = NULL;
}

/* build one structured array */
static void corpus_structured(corpus_iter *it, size_t n, int shape, uint64_t step, int basei, int outp, int magi) {
    uint64_t base = CORPUS_BASE[basei];
    if (basei == 7) {
        /* highest base that keeps base + n*step below 2^64 */
        __uint128_t span = (__uint128_t)n * step;
        base = span >= UINT64_MAX ? 0 : UINT64_MAX - (uint64_t)span;
    }
    for (size_t i = 0; i < n; i++) {
        uint64_t x;
        switch (shape) {
        case SH_CONST:
            x = base;
            break;
        case SH_ASC:
            x = base + i * step;
            break;
        case SH_DESC:
            x = base + (n - 1 - i) * step;
            break;
        case SH_SAW:
            x = base + (i % 7) * step;
            break;
        case SH_TWOLEVEL:
            x = base + ((i & 1) ? step * 3 : 0);
            break;
        case SH_PERM:
            x = base + ((i * 7 + 3) % n) * step; /* a fixed permutation when gcd(7,n)=1, a multiset otherwise */
            break;
        case SH_DUP:
            x = base + (i == 0 ? 0 : i - (i > n / 2 ? 1 : 0)) * step; /* ramp with one duplicate at n/2 */
            break;
        default:
            x = base + (i % 5) * step * 11;
            break;
        }
        it->v[i] = x;
    }
    uint64_t mag = CORPUS_MAG[magi];
    switch (outp) {
    case OUT_FIRST:
        it->v[0] = (mag == UINT64_MAX) ? UINT64_MAX : it->v[0] + mag;
        break;
    case OUT_MID:
        it->v[n / 2] = (mag == UINT64_MAX) ? UINT64_MAX : it->v[n / 2] + mag;
        break;
    case OUT_LAST:
        it->v[n - 1] = (mag == UINT64_MAX) ? UINT64_MAX : it->v[n - 1] + mag;
        break;
    case OUT_5PCT:
    case OUT_6PCT: {
        size_t k = (n * (outp == OUT_5PCT ? 5 : 6) + 99) / 100;
        if (k == 0) {
            k = 1;
        }
        /* spread k outliers evenly */
        for (size_t j = 0; j < k; j++) {
            size_t pos = (j * n) / k + (n / (2 * k));
            if (pos >= n) {
                pos = n - 1;
            }
            it->v[pos] = (mag == UINT64_MAX) ? UINT64_MAX : it->v[pos] + mag;
        }
        break;
    }
    default:
        break;
    }
    it->n = n;
    snprintf(it->desc, sizeof it->desc, "n=%zu shape=%s step=%" PRIu64 " base=%" PRIu64 " outliers=%s mag=%" PRIu64, n, CORPUS_SHAPE[shape], step, base,
             CORPUS_OUT[outp], outp ? mag : 0);
}

/* S3 adversarial families; returns 0 when index k is past the end */
static int corpus_adversarial(corpus_iter *it, uint64_t k) {
    uint64_t *v = it->v;
    size_t n = 0;
    switch (k) {
    case 0: /* PFOR: in-range value whose offset equals the 1-byte all-ones marker */
        for (n = 0; n < 17; n++) {
            v[n] = n;
        }
        v[n++] = 255;
        v[n++] = 255;
        v[n++] = 255;
        snprintf(it->desc, sizeof it->desc, "pfor marker: 0..16,255,255,255");
        break;
    case 1: /* 2-byte marker */
        for (n = 0; n < 40; n++) {
            v[n] = 1000 + n;
        }
        for (int j = 0; j < 4; j++) {
            v[n++] = 1000 + 65535;
        }
        snprintf(it->desc, sizeof it->desc, "pfor marker16: 1000..1039, 4x(1000+65535)");
        break;
    case 2: /* marker with outliers above it */
        for (n = 0; n < 60; n++) {
            v[n] = 7 + (n % 3);
        }
        v[10] = 7 + 255;
        v[20] = 7 + 255;
        v[30] = 7 + 255;
        v[40] = 7 + 255;
        v[50] = UINT64_MAX;
        snprintf(it->desc, sizeof it->desc, "pfor marker + one 2^64-1 outlier, n=60");
        break;
    case 3: /* exception index larger than its ordinal: one outlier far into a long array */
        for (n = 0; n < 6000; n++) {
            v[n] = 0;
        }
        v[5500] = UINT64_MAX;
        snprintf(it->desc, sizeof it->desc, "6000 zeros with 2^64-1 at index 5500");
        break;
    case 4: /* many exceptions with large indices */
        for (n = 0; n < 4000; n++) {
            v[n] = (n % 25 == 24) ? UINT64_MAX - n : 5;
        }
        snprintf(it->desc, sizeof it->desc, "n=4000 every 25th value huge (4%% outliers, large indices)");
        break;
    case 5: /* periodic in the adaptive sampler's stride: count 20000 -> sample 2000, step 10 */
        for (n = 0; n < 20000; n++) {
            v[n] = (n % 10 == 0) ? 42 : (0x0100000000000000ULL + n);
        }
        snprintf(it->desc, sizeof it->desc, "n=20000 sampler-stride periodic (index%%10==0 -> 42, others unique huge)");
        break;
    case 6:
        for (n = 0; n < 10001; n++) {
            v[n] = (n % 10 == 0) ? 7 : (1ULL << 60) + n * 3;
        }
        snprintf(it->desc, sizeof it->desc, "n=10001 sampler-stride periodic");
        break;
    case 7: /* descending small values: bitmap selection trap */
        for (n = 0; n < 50; n++) {
            v[n] = 100 - n;
        }
        snprintf(it->desc, sizeof it->desc, "descending 100..51");
        break;
    case 8: /* sorted small values with one duplicate */
        for (n = 0; n < 40; n++) {
            v[n] = n < 20 ? n : n - 1;
        }
        snprintf(it->desc, sizeof it->desc, "ascending 0..38 with one duplicate (19,19)");
        break;
    case 9: /* strictly increasing < 65536, dense: legal bitmap input */
        for (n = 0; n < 5000; n++) {
            v[n] = n * 3;
        }
        snprintf(it->desc, sizeof it->desc, "strictly increasing 0,3,..,14997 (n=5000 > 4096)");
        break;
    case 10:
        for (n = 0; n < 4097; n++) {
            v[n] = 60000 - 4096 + n;
        }
        snprintf(it->desc, sizeof it->desc, "strictly increasing run of 4097 ending at 60000");
        break;
    case 11: /* 9-byte tagged min and 2-byte tagged count */
        for (n = 0; n < 241; n++) {
            v[n] = UINT64_MAX - 300 + n;
        }
        snprintf(it->desc, sizeof it->desc, "n=241 values near 2^64 (9-byte min, 2-byte count)");
        break;
    case 12: /* one 64-bit-wide value */
        v[0] = UINT64_MAX;
        n = 1;
        snprintf(it->desc, sizeof it->desc, "single 2^64-1");
        break;
    case 13: /* 128 64-bit-wide increasing values (full delta block) */
        for (n = 0; n < 129; n++) {
            v[n] = n * 0x01ffffffffffffffULL;
        }
        snprintf(it->desc, sizeof it->desc, "129 values with 57-bit deltas");
        break;
    case 14: /* long single run + short runs: RLE */
        for (n = 0; n < 3000; n++) {
            v[n] = n < 2500 ? 9 : n;
        }
        snprintf(it->desc, sizeof it->desc, "run of 2500 then 500 distinct");
        break;
    case 15: /* low cardinality, 300 distinct values (dict index width 2) */
        for (n = 0; n < 1200; n++) {
            v[n] = (n % 300) * 1000003ULL;
        }
        snprintf(it->desc, sizeof it->desc, "n=1200 over 300 distinct values");
        break;
    case 16: /* 17 distinct values: dictionary realloc path */
        for (n = 0; n < 400; n++) {
            v[n] = (n % 17) << 40;
        }
        snprintf(it->desc, sizeof it->desc, "n=400 over 17 distinct values");
        break;
    case 17: /* alternating extremes */
        for (n = 0; n < 257; n++) {
            v[n] = (n & 1) ? UINT64_MAX : 0;
        }
        snprintf(it->desc, sizeof it->desc, "n=257 alternating 0 / 2^64-1");
        break;
    case 18: /* all equal huge */
        for (n = 0; n < 130; n++) {
            v[n] = UINT64_MAX;
        }
        snprintf(it->desc, sizeof it->desc, "n=130 all 2^64-1");
        break;
    case 19: /* powers of two ascending */
        for (n = 0; n < 64; n++) {
            v[n] = 1ULL << n;
        }
        snprintf(it->desc, sizeof it->desc, "2^0..2^63");
        break;
    case 20: /* reverse-sorted with minValue>0 and small avg delta */
        for (n = 0; n < 300; n++) {
            v[n] = 1000000 - n * 2;
        }
        snprintf(it->desc, sizeof it->desc, "descending 1000000 step 2, n=300");
        break;
    case 21: /* 5%% boundary: exactly 5 outliers in 100 */
        for (n = 0; n < 100; n++) {
            v[n] = n < 95 ? 1000 + n : 1000000 + n;
        }
        snprintf(it->desc, sizeof it->desc, "n=100 with 5 trailing outliers");
        break;
    case 22: /* range just below / at count*100 */
        for (n = 0; n < 50; n++) {
            v[n] = (n * 7919) % 4999;
        }
        snprintf(it->desc, sizeof it->desc, "n=50 unsorted range<5000");
        break;
    case 23:
        for (n = 0; n < 50; n++) {
            v[n] = (n * 7919) % 5003 + (n == 7 ? 0 : 0);
        }
        v[0] = 0;
        v[1] = 5000;
        snprintf(it->desc, sizeof it->desc, "n=50 unsorted range=5000");
        break;
    case 24: /* unique ratio right at 0.15 */
        for (n = 0; n < 100; n++) {
            v[n] = (n % 15) * 1000;
        }
        snprintf(it->desc, sizeof it->desc, "n=100 over 15 distinct (ratio 0.15)");
        break;
    case 25:
        for (n = 0; n < 100; n++) {
            v[n] = (n % 14) * 1000;
        }
        snprintf(it->desc, sizeof it->desc, "n=100 over 14 distinct (ratio 0.14)");
        break;
    default: {
        /* sampler-misleading family: every stride-th element repeats, the others are distinct and need 9 tagged
         * bytes; lengths around every threshold of the uniqueness estimate / selection (4096, 10000) */
        static const size_t LN[] = {2288, 4097, 5000, 8192, 9999, 10000, 10001, 12000};
        static const size_t ST[] = {2, 5, 10, 16};
        uint64_t j = k - 26;
        if (j >= (sizeof LN / sizeof *LN) * (sizeof ST / sizeof *ST)) {
            /* nearly sorted family: ascending except for ONE displaced element (a late record, a swapped pair, an
             * end-of-list sentinel), at the first / middle / last-but-one / last position, for lengths around a sort
             * shortcut's threshold and a 128-block; low-cardinality (dictionary data) and all-distinct variants */
            static const size_t NL[] = {8, 31, 32, 33, 100, 129, 257, 400};
            uint64_t q = j - (sizeof LN / sizeof *LN) * (sizeof ST / sizeof *ST);
            if (q >= 8 * 4 * 3) {
                return 0;
            }
            size_t len = NL[q / 12], where = (size_t)(q % 12) / 3;
            int variant = (int)(q % 3);
            size_t pos = where == 0 ? 1 : where == 1 ? len / 2 : where == 2 ? len - 2 : len - 1;
            for (n = 0; n < len; n++) {
                v[n] = variant == 0 ? 200 + 100 * (n * 4 / len) : 1000 + 10 * n;
            }
            if (variant == 2) {
                v[len - 1] = UINT64_MAX; /* sentinel last: one jump of almost 2^64 */
                snprintf(it->desc, sizeof it->desc, "n=%zu ascending ids then the sentinel 2^64-1 (pos unused %zu)", len, pos);
            } else {
                /* the displaced element is smaller than its predecessor, not smaller than the first element, and
                 * occurs nowhere else */
                v[pos] = v[pos - 1] > v[0] ? v[0] + (v[pos - 1] - v[0]) / 2 + 1 : v[0];
                snprintf(it->desc, sizeof it->desc, "n=%zu ascending %s except element %zu = %" PRIu64, len, variant ? "distinct" : "over 4 distinct", pos, v[pos]);
            }
            break;
        }
        size_t len = LN[j / 4], stride = ST[j % 4];
        for (n = 0; n < len; n++) {
            v[n] = (n % stride == 0) ? 42 : (0x0100000000000000ULL + n * 3);
        }
        snprintf(it->desc, sizeof it->desc, "n=%zu every %zu-th element equal, others distinct 9-byte values (misleads a strided sample)", len, stride);
        break;
    }
    }
    it->n = n;
    return 1;
}

static int corpus_next(corpus_iter *it) {
    for (;;) {
        uint64_t i = it->i;
        switch (it->stage) {
        case 0: { /* S1a: length 1..3 over A20 */
            if (i >= 20 + 400 + 8000) {
                it->stage++;
                it->i = 0;
                continue;
            }
            size_t n = i < 20 ? 1 : i < 420 ? 2 : 3;
            uint64_t t = i < 20 ? i : i < 420 ? i - 20 : i - 420;
            for (size_t k = 0; k < n; k++) {
                it->v[k] = CORPUS_A20[t % 20];
                t /= 20;
            }
            it->n = n;
            strcpy(it->family, "S1a");
            snprintf(it->desc, sizeof it->desc, "S1a len=%zu idx=%" PRIu64, n, i);
            it->i++;
            return 1;
        }
        case 1: { /* S1b: length 4..6 over A4 */
            if (i >= 256 + 1024 + 4096) {
                it->stage++;
                it->i = 0;
                continue;
            }
            size_t n = i < 256 ? 4 : i < 1280 ? 5 : 6;
            uint64_t t = i < 256 ? i : i < 1280 ? i - 256 : i - 1280;
            for (size_t k = 0; k < n; k++) {
                it->v[k] = CORPUS_A4[t % 4];
                t /= 4;
            }
            it->n = n;
            strcpy(it->family, "S1b");
            snprintf(it->desc, sizeof it->desc, "S1b len=%zu idx=%" PRIu64, n, i);
            it->i++;
            return 1;
        }
        case 2: { /* S1c: length 1..8 over {1,2} */
            if (i >= 510) {
                it->stage = 30;
                it->i = 0;
                continue;
            }
            size_t n = 1;
            uint64_t t = i;
            while (t >= (1ULL << n)) {
                t -= 1ULL << n;
                n++;
            }
            for (size_t k = 0; k < n; k++) {
                it->v[k] = 1 + ((t >> k) & 1);
            }
            it->n = n;
            strcpy(it->family, "S1c");
            snprintf(it->desc, sizeof it->desc, "S1c len=%zu bits=%" PRIu64, n, t);
            it->i++;
            return 1;
        }
        case 30: { /* S1d: all arrays of length 4 over an 8-value boundary alphabet */
            static const uint64_t A8[8] = {0, 1, 127, 128, 255, 256, 65535, 4294967296ULL};
            if (i >= 4096) {
                it->stage = 3;
                it->i = 0;
                continue;
            }
            uint64_t t = i;
            for (size_t k = 0; k < 4; k++) {
                it->v[k] = A8[t % 8];
                t /= 8;
            }
            it->n = 4;
            strcpy(it->family, "S1d");
            snprintf(it->desc, sizeof it->desc, "S1d len=4 idx=%" PRIu64, i);
            it->i++;
            return 1;
        }
        case 3: { /* S2 small lengths: full product */
            const size_t NL = sizeof CORPUS_N_SMALL / sizeof *CORPUS_N_SMALL;
            const uint64_t per = (uint64_t)SH_N * 6 * 8 * (1 + 5 * 4);
            if (i >= NL * per) {
                it->stage++;
                it->i = 0;
                continue;
            }
            size_t n = CORPUS_N_SMALL[i / per];
            uint64_t t = i % per;
            int shape = (int)(t % SH_N);
            t /= SH_N;
            int stepi = (int)(t % 6);
            t /= 6;
            int basei = (int)(t % 8);
            t /= 8;
            int outp = t == 0 ? 0 : 1 + (int)((t - 1) / 4);
            int magi = t == 0 ? 0 : (int)((t - 1) % 4);
            it->i++;
            if (n > it->maxn) {
                continue;
            }
            corpus_structured(it, n, shape, CORPUS_STEP[stepi], basei, outp, magi);
            strcpy(it->family, "S2s");
            return 1;
        }
        case 4: { /* S2 medium lengths: thinned product */
            const size_t NL = sizeof CORPUS_N_MED / sizeof *CORPUS_N_MED;
            static const int steps[4] = {0, 1, 3, 5};
            static const int bases[4] = {0, 3, 6, 7};
            static const int outs[7][2] = {{0, 0}, {OUT_FIRST, 0}, {OUT_FIRST, 3}, {OUT_LAST, 0}, {OUT_LAST, 3}, {OUT_6PCT, 1}, {OUT_6PCT, 3}};
            const uint64_t per = (uint64_t)SH_N * 4 * 4 * 7;
            if (i >= NL * per) {
                it->stage++;
                it->i = 0;
                continue;
            }
            size_t n = CORPUS_N_MED[i / per];
            uint64_t t = i % per;
            int shape = (int)(t % SH_N);
            t /= SH_N;
            int stepi = steps[t % 4];
            t /= 4;
            int basei = bases[t % 4];
            t /= 4;
            it->i++;
            if (n > it->maxn) {
                continue;
            }
            corpus_structured(it, n, shape, CORPUS_STEP[stepi], basei, outs[t][0], outs[t][1]);
            strcpy(it->family, "S2m");
            return 1;
        }
        case 5: { /* S2 large lengths */
            const size_t NL = sizeof CORPUS_N_LARGE / sizeof *CORPUS_N_LARGE;
            static const int steps[2] = {1, 3};
            static const int bases[2] = {0, 4};
            static const int outs[3][2] = {{0, 0}, {OUT_6PCT, 3}, {OUT_5PCT, 1}};
            const uint64_t per = (uint64_t)SH_N * 2 * 2 * 3;
            if (i >= NL * per) {
                it->stage++;
                it->i = 0;
                continue;
            }
            size_t n = CORPUS_N_LARGE[i / per];
            uint64_t t = i % per;
            int shape = (int)(t % SH_N);
            t /= SH_N;
            int stepi = steps[t % 2];
            t /= 2;
            int basei = bases[t % 2];
            t /= 2;
            it->i++;
            if (n > it->maxn) {
                continue;
            }
            corpus_structured(it, n, shape, CORPUS_STEP[stepi], basei, outs[t][0], outs[t][1]);
            strcpy(it->family, "S2l");
            return 1;
        }
        case 6: { /* S2 huge lengths (thorough only) */
            const size_t NL = sizeof CORPUS_N_HUGE / sizeof *CORPUS_N_HUGE;
            const uint64_t per = (uint64_t)SH_N * 2;
            if (!it->thorough || i >= NL * per) {
                it->stage++;
                it->i = 0;
                continue;
            }
            size_t n = CORPUS_N_HUGE[i / per];
            uint64_t t = i % per;
            int shape = (int)(t % SH_N);
            t /= SH_N;
            it->i++;
            if (n > it->maxn) {
                continue;
            }
            corpus_structured(it, n, shape, CORPUS_STEP[t ? 3 : 1], 0, t ? OUT_6PCT : OUT_NONE, 3);
            strcpy(it->family, "S2h");
            return 1;
        }
        case 7: { /* S2e: EVERY length 1..L (not only the listed ones), thinned product of the other dimensions */
            const uint64_t L = it->thorough ? 520 : 300;
            static const int shapes_q[2] = {SH_PERM, SH_SAW};
            static const int steps_t[3] = {1, 2, 5};  /* indices into CORPUS_STEP: 1, 255, 2^56 */
            static const int bases_t[2] = {0, 4};
            const uint64_t per = it->thorough ? (uint64_t)SH_N * 3 * 2 * 2 : 2 * 2;
            if (i >= L * per) {
                it->stage = 8;
                it->i = 0;
                continue;
            }
            size_t n = (size_t)(i / per) + 1;
            uint64_t t = i % per;
            it->i++;
            if (n > it->maxn) {
                continue;
            }
            if (it->thorough) {
                int shape = (int)(t % SH_N);
                t /= SH_N;
                int stepi = steps_t[t % 3];
                t /= 3;
                int basei = bases_t[t % 2];
                t /= 2;
                corpus_structured(it, n, shape, CORPUS_STEP[stepi], basei, t ? OUT_LAST : OUT_NONE, 3);
            } else {
                corpus_structured(it, n, shapes_q[t % 2], CORPUS_STEP[(t / 2) ? 3 : 1], 0, OUT_NONE, 0);
            }
            strcpy(it->family, "S2e");
            return 1;
        }
        case 8: { /* S3 adversarial */
            it->i++;
            if (!corpus_adversarial(it, i)) {
                it->stage++;
                it->i = 0;
                continue;
            }
            if (it->n > it->maxn) {
                continue;
            }
            strcpy(it->family, "S3");
            return 1;
        }
        case 9: { /* S4 width-class worst cases: EVERY length 1..L x (min class, spread class, stride, outliers, order).
                   * One element sits at the minimum, the others at min+S+j*stride (all distinct, so neither the
                   * dictionary nor RLE qualifies), plus 0..2 outliers: every (min width, offset width, exception
                   * width) combination an encoder's size arithmetic distinguishes, at both ends of each byte class. */
            const uint64_t L = it->thorough ? 300 : 72;
            static const uint64_t MINS[6] = {0, 241, 1ULL << 16, 1ULL << 32, 1ULL << 56, 1ULL << 63};
            /* spreads: low end 2^(8(w-1)) of byte class w = 1..8, then the high end 2^(8w)-1-2n of w = 1..7 */
            enum { NSP = 15, NOUT = 5, NSTR = 2, NORD = 2 };
            const uint64_t per = 6ULL * NSP * NOUT * NSTR * NORD;
            if (i >= L * per) {
                it->stage++;
                it->i = 0;
                continue;
            }
            size_t n = (size_t)(i / per) + 1;
            uint64_t t = i % per;
            it->i++;
            if (n > it->maxn) {
                continue;
            }
            uint64_t mn = MINS[t % 6];
            t /= 6;
            int spi = (int)(t % NSP);
            t /= NSP;
            int outc = (int)(t % NOUT); /* 0 none; 1,2: one/two outliers at +S; 3,4: one/two at UINT64_MAX(-1) */
            t /= NOUT;
            int stri = (int)(t % NSTR);
            t /= NSTR;
            int ord = (int)t;
            uint64_t S = spi < 8 ? 1ULL << (8 * spi) : (1ULL << (8 * (spi - 7))) - 1 - 2 * n;
            if (spi >= 8 && (1ULL << (8 * (spi - 7))) - 1 < 4 * n) {
                continue; /* class too narrow for n distinct values */
            }
            uint64_t stride = stri ? (S / (2 * n) ? S / (2 * n) : 1) : 1;
            __uint128_t top = (__uint128_t)mn + S + (__uint128_t)stride * n + ((outc == 1 || outc == 2) ? S : 0);
            if (top >= UINT64_MAX - 2) {
                continue; /* does not fit below 2^64 */
            }
            for (size_t j = 0; j < n; j++) {
                size_t pos = ord ? (j * 7 + 3) % n : j; /* ord 0: ascending (delta-eligible); 1: scattered */
                if (ord && n % 7 == 0) {
                    pos = (j * 5 + 3) % n;
                }
                if (ord && n % 35 == 0) {
                    pos = (j * 11 + 3) % n;
                }
                it->v[pos] = j == 0 ? mn : mn + S + stride * j;
            }
            if (outc && n >= 2) {
                int k = (outc == 2 || outc == 4) ? 2 : 1;
                for (int q = 0; q < k && (size_t)q + 1 < n; q++) {
                    /* the largest elements become the outliers (keeps ascending order ascending) */
                    size_t pos = ord ? ((n - 1 - q) * (n % 35 == 0 ? 11 : n % 7 == 0 ? 5 : 7) + 3) % n : n - 1 - q;
                    it->v[pos] = outc <= 2 ? it->v[pos] + S : UINT64_MAX - (uint64_t)q;
                }
            }
            it->n = n;
            snprintf(it->desc, sizeof it->desc, "n=%zu widthclass min=%" PRIu64 " spread=%" PRIu64 " stride=%" PRIu64 " outliers=%d order=%s", n, mn, S,
                     stride, outc, ord ? "scattered" : "ascending");
            strcpy(it->family, "S4");
            return 1;
        }
        case 10: { /* S2f: the lengths between the every-length range and the listed large lengths: 301..4200.
                    * thorough: every length; quick: every 13th plus the neighbours of every multiple of 128 */
            const uint64_t LO = it->thorough ? 521 : 301, HI = 4200;
            const uint64_t per = 2;
            if (i >= (HI - LO + 1) * per) {
                it->stage++;
                it->i = 0;
                continue;
            }
            size_t n = (size_t)(LO + i / per);
            uint64_t t = i % per;
            it->i++;
            if (n > it->maxn) {
                continue;
            }
            if (!it->thorough && !(n % 13 == 2 || n % 128 <= 1 || n % 128 == 127)) {
                continue;
            }
            if (t == 0) {
                corpus_structured(it, n, SH_PERM, 1, 0, OUT_NONE, 0);
            } else {
                corpus_structured(it, n, SH_SAW, 256, 4, OUT_LAST, 3);
            }
            strcpy(it->family, "S2f");
            return 1;
        }
        case 11: { /* S2q: the 3-to-4-byte boundary of a tagged element / run count (67823 | 67824) and 2^16, in both tiers:
                    * one run, ascending, two runs split at the boundary, low-cardinality */
            static const size_t NQ[5] = {65536, 67823, 67824, 67825, 69000};
            const uint64_t per = 4;
            if (i >= 5 * per) {
                it->stage++;
                it->i = 0;
                continue;
            }
            size_t n = NQ[i / per];
            uint64_t t = i % per;
            it->i++;
            if (n > it->maxn) {
                continue;
            }
            if (t == 0) {
                corpus_structured(it, n, SH_CONST, 0, 2, OUT_NONE, 0);
            } else if (t == 1) {
                corpus_structured(it, n, SH_ASC, 1, 0, OUT_NONE, 0);
            } else if (t == 2) {
                corpus_structured(it, n, SH_CONST, 0, 4, OUT_LAST, 0); /* a run of n-1 and one more value */
            } else {
                corpus_structured(it, n, SH_KCYCLE, 3, 0, OUT_NONE, 0);
            }
            strcpy(it->family, "S2q");
            return 1;
        }
        case 12: { /* S5: exception COUNTS at the boundaries of a tagged count (240|241, 2287|2288|2289): a constant (or
                    * narrow) cluster followed by exactly K nine-byte outliers at the end, long enough that the 90th and
                    * 95th percentile fall inside the cluster - the patched frame's size prediction is then tight */
            static const size_t KS[5] = {240, 241, 2287, 2288, 2289};
            const uint64_t per = 2;
            if (i >= 5 * per) {
                it->stage++;
                it->i = 0;
                continue;
            }
            size_t K = KS[i / per], n = 20 * K + 40;
            int narrow = (int)(i % per);
            it->i++;
            if (n > it->maxn) {
                continue;
            }
            for (size_t j = 0; j < n - K; j++) {
                it->v[j] = narrow ? 1000 + (j * 7) % 100 : 1000;
            }
            for (size_t j = 0; j < K; j++) {
                it->v[n - K + j] = UINT64_MAX - (uint64_t)(K - 1 - j);
            }
            it->n = n;
            snprintf(it->desc, sizeof it->desc, "n=%zu: %s cluster then exactly %zu nine-byte outliers at the end", n, narrow ? "narrow (1000..1099)" : "constant (1000)", K);
            strcpy(it->family, "S5");
            return 1;
        }
        case 13: { /* S6 byte-pattern values: each of the 8 bytes drawn from {00, 01, 80, FF} - all 65536 values, i.e.
                    * every pattern of equal / unequal bytes, halves and quarters a word-level shortcut (splat fill,
                    * narrow-store, sign test) may key on; 256 values per array: once each, as runs of 3, and sorted */
            const uint64_t per = 3;
            const uint64_t blocks = it->thorough ? 256 : 64; /* quick: every 4th block */
            if (i >= blocks * per) {
                it->stage++;
                it->i = 0;
                continue;
            }
            uint64_t b = (i / per) * (it->thorough ? 1 : 4) + (it->thorough ? 0 : (i / per) % 4);
            int t = (int)(i % per);
            it->i++;
            static const uint8_t SYM[4] = {0x00, 0x01, 0x80, 0xFF};
            size_t n = 0;
            if ((t == 1 ? 768u : 256u) > it->maxn) {
                continue;
            }
            for (uint64_t c = 0; c < 256; c++) {
                uint64_t code = b * 256 + ((c * 77 + 5) & 255), val = 0; /* scattered order inside the block */
                if (t == 2) {
                    code = b * 256 + c;
                }
                for (int k = 0; k < 8; k++) {
                    val |= (uint64_t)SYM[(code >> (2 * k)) & 3] << (8 * (t == 2 ? 7 - k : k));
                }
                for (int r = 0; r < (t == 1 ? 3 : 1); r++) {
                    it->v[n++] = val;
                }
            }
            if (t == 2) { /* ascending: code order with the most significant byte from the top digits is monotone in the
                           * symbol order 00 < 01 < 80 < FF only per digit - sort to be sure */
                for (size_t a = 1; a < n; a++) {
                    uint64_t x = it->v[a];
                    size_t z = a;
                    while (z > 0 && it->v[z - 1] > x) {
                        it->v[z] = it->v[z - 1];
                        z--;
                    }
                    it->v[z] = x;
                }
            }
            it->n = n;
            snprintf(it->desc, sizeof it->desc, "n=%zu byte-pattern values {00,01,80,FF}^8 block %" PRIu64 " %s", n, b, t == 0 ? "once each" : t == 1 ? "runs of 3" : "ascending");
            strcpy(it->family, "S6");
            return 1;
        }
        default:
            return 0;
        }
    }
}

#endif
