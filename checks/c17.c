/* c17.c - E-sched explorer (uninstrumented): stateless model checking of concurrent calls of the pure codecs.
 * For every harness (a set of threads, each running one or more operations of c17_ops.c on shared read-only
 * inputs and private outputs):
 *   1. solo runs               per-thread reference event log (normalised) and reference outputs
 *   2. three serial orders     ascending start, descending start, switch at every function entry:
 *                              every thread's normalised log and outputs must equal the solo ones
 *                              (schedule-independence of each thread's path: checked, not assumed)
 *   3. conflict computation    two events of different threads conflict if their address ranges overlap, one
 *                              writes, they are not both atomic and their locksets are disjoint; the library has
 *                              no synchronisation, so every conflict is a data race
 *   4. schedule enumeration    iterative context bounding (preemption bound 0, 1, 2) over the choice points
 *                              (thread start / end, accesses to conflicting addresses, mutex and atomic
 *                              operations): every thread's outputs in every explored schedule must equal solo
 */
#include "vh.h"
#include "vsched.h"

#include "c17_ops.h"

#define MAXOPS_PER_THREAD 80
typedef struct {
    int nops;
    int ops[MAXOPS_PER_THREAD];
    c17_ctx ctx[MAXOPS_PER_THREAD];
} tspec;

static tspec TS[VS_MAXT];
static int NTHR;

static void body(void *arg) {
    tspec *t = (tspec *)arg;
    for (int k = 0; k < t->nops; k++) {
        t->ctx[k].obs_len = 0;
        C17_OPS[t->ops[k]].fn(&t->ctx[k]);
    }
}

/* private buffers: one contiguous slab per thread slot (one private region per thread), reused across harnesses */
#define SLOT_BYTES (16384 + 16384 + 256 * 8 + C17_OBS_MAX)
static uint8_t *SLAB[VS_MAXT];
/* large operations (12000-value inputs) run only as operation 0 of threads 0..2 and get a larger private slab */
#define LSLOT_BYTES (3 * C17_LARGE_BYTES + C17_OBS_MAX)
static uint8_t *LSLAB[3];
static int is_large(int oi) { return oi >= C17_NOPS && oi < C17_NALL; }
static void ensure_ctx(int t, int k, int large) {
    if (!SLAB[t]) {
        SLAB[t] = malloc((size_t)SLOT_BYTES * MAXOPS_PER_THREAD);
    }
    c17_ctx *c = &TS[t].ctx[k];
    if (large) {
        if (t >= 3 || k != 0) {
            fprintf(stderr, "large operation outside thread 0..2 / position 0\n");
            exit(3);
        }
        if (!LSLAB[t]) {
            LSLAB[t] = malloc(LSLOT_BYTES);
        }
        uint8_t *b = LSLAB[t];
        c->enc = b;
        c->enc2 = b + C17_LARGE_BYTES;
        c->dec = (uint64_t *)(b + 2 * C17_LARGE_BYTES);
        c->obs = b + 3 * C17_LARGE_BYTES;
        return;
    }
    uint8_t *b = SLAB[t] + (size_t)k * SLOT_BYTES;
    c->enc = b;
    c->enc2 = b + 16384;
    c->dec = (uint64_t *)(b + 32768);
    c->obs = b + 32768 + 256 * 8;
}
static void add_regions(int tid, int t) {
    vs_add_private(tid, SLAB[t], (size_t)SLOT_BYTES * MAXOPS_PER_THREAD);
    if (t < 3 && LSLAB[t]) {
        vs_add_private(tid, LSLAB[t], LSLOT_BYTES);
    }
    vs_add_private(tid, &TS[t], sizeof TS[t]);
}
static void setup(int nthr, int nops_each, int ops[][MAXOPS_PER_THREAD]) {
    NTHR = nthr;
    vs_reset_regions();
    for (int i = 0; i < C17_NIN; i++) {
        vs_add_shared_ro(C17_IN[i], C17_INBYTES[i]);
    }
    for (int i = 0; i < C17_NSHREG; i++) {
        vs_add_shared_ro(C17_SHREG[i], C17_SHREG_BYTES[i]);
    }
    c17_reset_record();
    for (int t = 0; t < nthr; t++) {
        TS[t].nops = nops_each;
        for (int k = 0; k < nops_each; k++) {
            int oi = ops[t][k];
            ensure_ctx(t, k, is_large(oi));
            TS[t].ops[k] = oi;
            c17_ctx *c = &TS[t].ctx[k];
            c->in = C17_IN[C17_OPS[oi].input];
            c->n = C17_INN[C17_OPS[oi].input];
            c->arg = C17_OPS[oi].arg;
            size_t sb = is_large(oi) ? C17_LARGE_BYTES : 16384, db = is_large(oi) ? C17_LARGE_BYTES : 256 * 8;
            memset(c->enc, 0xE1, sb);
            memset(c->enc2, 0xE2, sb);
            memset(c->dec, 0xE3, db);
            memset(c->obs, 0, C17_OBS_MAX);
            c->obs_len = 0;
        }
        add_regions(t, t);
    }
}

/* ---------------------------------------------------------------- normalised logs and outputs */
typedef struct {
    uint64_t hash;
    size_t n;
} logsig;
static uint64_t mix(uint64_t h, uint64_t v) {
    h ^= v + 0x9e3779b97f4a7c15ULL + (h << 6) + (h >> 2);
    return h * 0xff51afd7ed558ccdULL;
}
static logsig log_signature(const vs_exec *x, int t) {
    logsig s = {0x1234, x->nevents[t]};
    for (size_t i = 0; i < x->nevents[t]; i++) {
        const vs_event *e = &x->events[t][i];
        uint64_t rel = e->klass == VS_K_OWN_STACK ? 0 : e->rel;
        s.hash = mix(s.hash, (uint64_t)e->klass | (uint64_t)e->is_write << 8 | (uint64_t)e->is_atomic << 9 | (uint64_t)e->size << 16 | rel << 32);
        s.hash = mix(s.hash, e->pc);
    }
    return s;
}
static uint64_t obs_signature(int t) {
    uint64_t h = 77;
    for (int k = 0; k < TS[t].nops; k++) {
        const c17_ctx *c = &TS[t].ctx[k];
        h = mix(h, c->obs_len);
        for (uint32_t i = 0; i + 8 <= c->obs_len; i += 8) {
            uint64_t v;
            memcpy(&v, c->obs + i, 8);
            h = mix(h, v);
        }
        for (uint32_t i = c->obs_len & ~7u; i < c->obs_len; i++) {
            h = mix(h, c->obs[i]);
        }
    }
    return h;
}

static logsig SOLO_LOG[VS_MAXT];
static uint64_t SOLO_OBS[VS_MAXT];

/* ---------------------------------------------------------------- conflicts */
typedef struct {
    uintptr_t addr;
    uint32_t size;
    uint8_t tid, w, atomic, klass;
    uint32_t locks;
    uintptr_t pc;
} cev;
static cev *CE;
static size_t NCE, CAPCE;
static int cev_cmp(const void *a, const void *b) {
    const cev *x = a, *y = b;
    if (x->addr != y->addr) {
        return x->addr < y->addr ? -1 : 1;
    }
    return (int)x->tid - (int)y->tid;
}
typedef struct {
    uintptr_t addr;
    uint32_t size;
    int t1, t2, w1, w2, k1, k2;
    uintptr_t pc1, pc2;
} conflict;
static conflict CONF[64];
static int NCONF;
static uint64_t NCONF_TOTAL;

/* writable static storage defined by the library's own objects (listed by the driver from the symbol tables; empty
 * for the unchanged tree). Stores to it may be invisible to the compiler's instrumentation (vector stores wider than 16
 * bytes are not instrumented), so EVERY access to it counts as a write: two threads touching it conflict. */
#include <link.h>
typedef struct {
    uintptr_t lo, hi;
    char name[80];
} libstatic;
static libstatic LIBST[64];
static int NLIBST;
static int phdr_cb(struct dl_phdr_info *info, size_t size, void *data) {
    (void)size;
    if (*(uintptr_t *)data == (uintptr_t)-1) {
        *(uintptr_t *)data = (uintptr_t)info->dlpi_addr; /* first entry: the main program */
    }
    return 0;
}
static void load_lib_statics(void) {
    char path[600];
    ssize_t n = readlink("/proc/self/exe", path, sizeof path - 32);
    if (n <= 0) {
        return;
    }
    path[n] = 0;
    char *slash = strrchr(path, '/');
    if (!slash) {
        return;
    }
    strcpy(slash + 1, "lib_statics.txt");
    FILE *f = fopen(path, "r");
    if (!f) {
        return;
    }
    uintptr_t base = (uintptr_t)-1;
    dl_iterate_phdr(phdr_cb, &base);
    if (base == (uintptr_t)-1) {
        base = 0;
    }
    unsigned long off, sz;
    char nm[80];
    while (NLIBST < 64 && fscanf(f, "%lx %lu %79s", &off, &sz, nm) == 3) {
        LIBST[NLIBST].lo = base + off;
        LIBST[NLIBST].hi = base + off + (sz ? sz : 1);
        snprintf(LIBST[NLIBST].name, sizeof LIBST[NLIBST].name, "%s", nm);
        NLIBST++;
    }
    fclose(f);
    vh_infostr("library_static_objects", "%d", NLIBST);
}
static int in_lib_static(uintptr_t a, uint32_t size) {
    for (int i = 0; i < NLIBST; i++) {
        if (a < LIBST[i].hi && a + size > LIBST[i].lo) {
            return 1;
        }
    }
    return 0;
}

static void compute_conflicts(const vs_exec *x) {
    NCE = 0;
    NCONF = 0;
    NCONF_TOTAL = 0;
    for (int t = 0; t < x->nthreads; t++) {
        for (size_t i = 0; i < x->nevents[t]; i++) {
            const vs_event *e = &x->events[t][i];
            if (e->klass == VS_K_OWN_STACK) {
                continue; /* a foreign access to this stack is classified GLOBAL on the other side and kept */
            }
            if (NCE == CAPCE) {
                CAPCE = CAPCE ? CAPCE * 2 : 1 << 16;
                CE = realloc(CE, CAPCE * sizeof(cev));
            }
            cev *c = &CE[NCE++];
            c->addr = e->addr;
            c->size = e->size ? e->size : 1;
            c->tid = (uint8_t)t;
            c->w = e->is_write || (NLIBST && in_lib_static(e->addr, e->size ? e->size : 1));
            c->atomic = e->is_atomic;
            c->klass = e->klass;
            c->locks = e->locks;
            c->pc = e->pc;
        }
    }
    /* own-class events can only conflict with a foreign-class event of another thread: drop own-class events of
     * regions nobody else touches by a cheap pre-pass over classes */
    int any_foreign = 0;
    for (size_t i = 0; i < NCE; i++) {
        if (CE[i].klass == VS_K_FOREIGN_HEAP || CE[i].klass == VS_K_FOREIGN_PRIVATE || CE[i].klass == VS_K_GLOBAL) {
            any_foreign = 1;
            break;
        }
    }
    if (!any_foreign) {
        /* only shared read-only regions are touched by more than one thread: conflicts need a write there */
        size_t w = 0;
        for (size_t i = 0; i < NCE; i++) {
            if (CE[i].klass == VS_K_SHARED_RO) {
                CE[w++] = CE[i];
            }
        }
        NCE = w;
        int any_write = 0;
        for (size_t i = 0; i < NCE; i++) {
            any_write |= CE[i].w;
        }
        if (!any_write) {
            return;
        }
    }
    qsort(CE, NCE, sizeof(cev), cev_cmp);
    uintptr_t maxend = 0;
    (void)maxend;
    for (size_t i = 0; i < NCE; i++) {
        uintptr_t end = CE[i].addr + CE[i].size;
        for (size_t j = i + 1; j < NCE && CE[j].addr < end; j++) {
            if (CE[j].tid == CE[i].tid) {
                continue;
            }
            if (!(CE[i].w || CE[j].w)) {
                continue;
            }
            if (CE[i].atomic && CE[j].atomic) {
                continue;
            }
            if (CE[i].locks & CE[j].locks) {
                continue;
            }
            NCONF_TOTAL++;
            int dup = 0;
            for (int k = 0; k < NCONF; k++) {
                dup |= CONF[k].pc1 == CE[i].pc && CONF[k].pc2 == CE[j].pc;
            }
            if (!dup && NCONF < 64) {
                conflict *c = &CONF[NCONF++];
                c->addr = CE[j].addr;
                c->size = CE[j].size;
                c->t1 = CE[i].tid;
                c->t2 = CE[j].tid;
                c->w1 = CE[i].w;
                c->w2 = CE[j].w;
                c->k1 = CE[i].klass;
                c->k2 = CE[j].klass;
                c->pc1 = CE[i].pc;
                c->pc2 = CE[j].pc;
            }
        }
    }
}

/* ---------------------------------------------------------------- running */
static vs_body BODIES[VS_MAXT];
static void *ARGS[VS_MAXT];
static uint64_t n_exec, n_events, n_points;

static const vs_exec *run_group(const uint8_t *prefix, int plen) {
    c17_reset_record();
    for (int t = 0; t < NTHR; t++) {
        BODIES[t] = body;
        ARGS[t] = &TS[t];
        for (int k = 0; k < TS[t].nops; k++) {
            /* every execution starts from the same private buffer contents */
            memset(TS[t].ctx[k].enc, 0xE1, 16384);
            memset(TS[t].ctx[k].enc2, 0xE2, 16384);
            memset(TS[t].ctx[k].dec, 0xE3, 256 * 8);
            memset(TS[t].ctx[k].obs, 0, C17_OBS_MAX);
            TS[t].ctx[k].obs_len = 0;
        }
    }
    const vs_exec *x = vs_run(NTHR, BODIES, ARGS, prefix, plen);
    n_exec++;
    for (int t = 0; t < NTHR; t++) {
        n_events += x->nevents[t];
    }
    n_points += (uint64_t)x->npoints;
    return x;
}

static char HNAME[512];

static const char *KN[] = {"own-stack", "own-heap", "own-private", "shared-input", "foreign-heap", "foreign-private", "global/static"};

static int check_exec(const vs_exec *x, const char *how, int check_logs) {
    int bad = 0;
    if (x->truncated) {
        vh_fail("scheduler", "harness_limit", "untagged", "%s: %s: event or choice-point capacity exceeded", HNAME, how);
        return 1;
    }
    if (x->deadlock) {
        vh_fail("concurrent calls", "deadlock", "untagged", "%s: %s: no thread enabled", HNAME, how);
        bad = 1;
    }
    for (int t = 0; t < NTHR; t++) {
        if (obs_signature(t) != SOLO_OBS[t]) {
            vh_fail(C17_OPS[TS[t].ops[0]].name, "differs_from_solo", "untagged", "%s: %s: thread %d returned something different from its solo run", HNAME, how, t);
            bad = 1;
        }
        if (check_logs) {
            logsig s = log_signature(x, t);
            if (s.hash != SOLO_LOG[t].hash || s.n != SOLO_LOG[t].n) {
                /* not a violation by itself (a lock-protected cache would legitimately do this): it only means that the
                 * "no conflict => one execution decides all schedules" shortcut is unavailable for this harness, so the
                 * verdict rests on the conflict computation and on the enumerated schedules */
                vh_count("harness_runs_with_schedule_dependent_path", 1);
            }
        }
    }
    return bad;
}

static int report_conflicts(const char *how) {
    if (!NCONF) {
        return 0;
    }
    for (int k = 0; k < NCONF && k < 3; k++) {
        conflict *c = &CONF[k];
        vh_fail(C17_OPS[TS[c->t1].ops[0]].name, "data_race", "untagged", "%s: %s: thread %d %s and thread %d %s %u bytes at %p (%s / %s), code offsets %#lx / %#lx; %" PRIu64 " conflicting event pairs in total", HNAME, how, c->t1,
                c->w1 ? "writes" : "reads", c->t2, c->w2 ? "writes" : "reads", c->size, (void *)c->addr, KN[c->k1], KN[c->k2], (unsigned long)c->pc1, (unsigned long)c->pc2, NCONF_TOTAL);
    }
    return 1;
}

/* iterative context bounding */
static int BOUND;
static uint64_t explore_budget;
static uint64_t sched_per_bound[4];
static int explore_capped;
static uint64_t distinct_outcomes; /* distinct (per-thread outputs) tuples seen, expected 1 */
static uint64_t outcome_seen[64];
static int n_outcomes;

static void note_outcome(void) {
    uint64_t h = 5;
    for (int t = 0; t < NTHR; t++) {
        h = mix(h, obs_signature(t));
    }
    for (int i = 0; i < n_outcomes; i++) {
        if (outcome_seen[i] == h) {
            return;
        }
    }
    if (n_outcomes < 64) {
        outcome_seen[n_outcomes++] = h;
    }
}

static int cap_is_expected; /* the 16-thread confirmation harness runs the default schedule only */
static int harness_found_difference; /* a schedule with an outcome different from solo is already recorded for this harness */
static void explore(const uint8_t *prefix, int plen) {
    if (harness_found_difference) {
        return; /* the first counterexample has the fewest deviations; further schedules add nothing */
    }
    if (explore_budget == 0 || vh_deadline_hit()) {
        if (!cap_is_expected) {
            explore_capped = 1;
        }
        return;
    }
    explore_budget--;
    const vs_exec *x = run_group(prefix, plen);
    int np = x->npoints;
    static vs_point pts[VS_MAXPOINTS];
    /* copy: the next vs_run overwrites the execution record */
    vs_point *mine = malloc(sizeof(vs_point) * (size_t)(np ? np : 1));
    memcpy(mine, x->points, sizeof(vs_point) * (size_t)np);
    (void)pts;
    if (x->diverged) {
        vh_fail("scheduler", "harness_nondeterminism", "untagged", "%s: replaying a schedule prefix of %d choices diverged", HNAME, plen);
    }
    char how[96];
    snprintf(how, sizeof how, "schedule with %d forced choices (preemption bound %d)", plen, BOUND);
    if (check_exec(x, how, 0)) {
        harness_found_difference = 1;
    }
    note_outcome();
    sched_per_bound[BOUND]++;
    uint8_t *choices = malloc((size_t)np + 1);
    for (int i = 0; i < np; i++) {
        choices[i] = mine[i].chosen;
    }
    int pre = 0;
    for (int i = 0; i < np; i++) {
        if (i >= plen) {
            int cost = pre + (mine[i].running_enabled ? 1 : 0);
            if (cost <= BOUND) {
                for (int alt = 1; alt < mine[i].nenabled; alt++) {
                    uint8_t *np2 = malloc((size_t)i + 1);
                    memcpy(np2, choices, (size_t)i);
                    np2[i] = (uint8_t)alt;
                    explore(np2, i + 1);
                    free(np2);
                }
            }
        }
        if (mine[i].chosen != 0 && mine[i].running_enabled) {
            pre++;
        }
    }
    free(choices);
    free(mine);
}

/* one harness: ops[t][k] */
static void run_harness(int nthr, int nops_each, int ops[][MAXOPS_PER_THREAD], int max_bound, uint64_t budget) {
    /* 1. solo runs */
    for (int t = 0; t < nthr; t++) {
        int one[1][MAXOPS_PER_THREAD];
        memcpy(one[0], ops[t], sizeof one[0]);
        /* run thread t alone in slot t (same private buffers as in the group) */
        setup(nthr, nops_each, ops);
        vs_clear_hot();
        vs_set_default_order(0);
        vs_set_switch_on_func_entry(0);
        vs_body b[1] = {body};
        void *a[1] = {&TS[t]};
        /* solo: tid 0 is used by the scheduler; private regions of slot t must be attributed to tid 0 */
        vs_reset_regions();
        for (int i = 0; i < C17_NIN; i++) {
            vs_add_shared_ro(C17_IN[i], C17_INBYTES[i]);
        }
        for (int i = 0; i < C17_NSHREG; i++) {
            vs_add_shared_ro(C17_SHREG[i], C17_SHREG_BYTES[i]);
        }
        add_regions(0, t);
        const vs_exec *x = vs_run(1, b, a, NULL, 0);
        n_exec++;
        n_events += x->nevents[0];
        SOLO_LOG[t] = log_signature(x, 0);
        SOLO_OBS[t] = obs_signature(t);
        if (x->truncated) {
            vh_fail("scheduler", "harness_limit", "untagged", "%s: solo run exceeded the event capacity", HNAME);
        }
    }
    /* 2. three serial orders */
    setup(nthr, nops_each, ops);
    int bad = 0, raced = 0;
    for (int order = 0; order < 3; order++) {
        vs_clear_hot();
        vs_set_default_order(order == 1);
        vs_set_switch_on_func_entry(order == 2);
        const vs_exec *x = run_group(NULL, 0);
        static const char *ON[3] = {"serial order ascending", "serial order descending", "switch at every function entry"};
        bad |= check_exec(x, ON[order], 1);
        compute_conflicts(x);
        if (!raced && report_conflicts(ON[order])) {
            raced = 1;
            /* conflicting addresses become choice points for the enumeration below */
            vs_clear_hot();
            for (int k = 0; k < NCONF; k++) {
                vs_add_hot(CONF[k].addr, CONF[k].size);
            }
        }
        vh_count("conflicts", NCONF_TOTAL);
    }
    vs_set_default_order(0);
    vs_set_switch_on_func_entry(0);
    /* 3. schedule enumeration with preemption bounds 0..max_bound */
    n_outcomes = 0;
    harness_found_difference = 0;
    for (BOUND = 0; BOUND <= max_bound; BOUND++) {
        explore_budget = budget;
        explore(NULL, 0);
    }
    distinct_outcomes += (uint64_t)n_outcomes;
    if (n_outcomes > 1) {
        vh_count("harnesses_with_several_outcomes", 1);
    }
    (void)bad;
    vh_count("cases", 1);
}

#include <sys/personality.h>
int main(int argc, char **argv) {
    /* reproducible addresses (reports and replays quote them): re-exec once with address randomisation off */
    if (!getenv("VS_NOASLR")) {
        setenv("VS_NOASLR", "1", 1);
        if (personality(ADDR_NO_RANDOMIZE) != -1) {
            execv("/proc/self/exe", argv);
        }
    }
    vh_init(argc, argv);
    vs_init();
    load_lib_statics();
    c17_init_inputs();
    int max_bound = vh_thorough ? 2 : 1;
    static int ops[VS_MAXT][MAXOPS_PER_THREAD];
    int complete = 1;
    /* (a) every unordered pair {i, j}, i <= j, as two threads */
    if (vh_section_begin("pairs")) {
        for (int i = 0; i < C17_NOPS && complete; i++) {
            for (int j = i; j < C17_NOPS; j++) {
                if (!vh_case()) {
                    continue;
                }
                if (vh_deadline_hit()) {
                    complete = 0;
                    break;
                }
                ops[0][0] = i;
                ops[1][0] = j;
                snprintf(HNAME, sizeof HNAME, "threads {%s[input %d], %s[input %d]}", C17_OPS[i].name, C17_OPS[i].input, C17_OPS[j].name, C17_OPS[j].input);
                run_harness(2, 1, ops, max_bound, 4000);
            }
            char ck[96];
            snprintf(ck, sizeof ck, "pairs/%s#%d", C17_OPS[i].name, C17_OPS[i].input);
            vh_class(ck, "x every operation j >= i (%d operations)", C17_NOPS);
        }
        vh_flag("all_pairs", complete);
    }
    /* (c) three-thread harnesses: every operation with its two successors in the table (cyclic) */
    if (vh_section_begin("triples")) {
        for (int i = 0; i < C17_NOPS; i++) {
            if (!vh_case()) {
                continue;
            }
            ops[0][0] = i;
            ops[1][0] = (i + 1) % C17_NOPS;
            ops[2][0] = (i * 7 + 3) % C17_NOPS;
            snprintf(HNAME, sizeof HNAME, "threads {%s, %s, %s}", C17_OPS[ops[0][0]].name, C17_OPS[ops[1][0]].name, C17_OPS[ops[2][0]].name);
            run_harness(3, 1, ops, max_bound, 4000);
        }
        vh_class("triples", "%d three-thread harnesses", C17_NOPS);
    }
    /* (c') thorough: every unordered triple of operations i < j < k with (i + j + k) divisible by 5 (a fifth of all triples) */
    if (vh_thorough && vh_section_begin("triples_all")) {
        for (int i = 0; i < C17_NOPS; i++) {
            for (int j = i + 1; j < C17_NOPS; j++) {
                for (int k = j + 1; k < C17_NOPS; k++) {
                    if ((i + j + k) % 5) {
                        continue;
                    }
                    if (!vh_case()) {
                        continue;
                    }
                    if (vh_deadline_hit()) {
                        break;
                    }
                    ops[0][0] = i;
                    ops[1][0] = j;
                    ops[2][0] = k;
                    snprintf(HNAME, sizeof HNAME, "threads {%s, %s, %s}", C17_OPS[i].name, C17_OPS[j].name, C17_OPS[k].name);
                    run_harness(3, 1, ops, 1, 2000);
                }
            }
        }
        vh_class("triples_all", "a fifth of all unordered triples of %d operations", C17_NOPS);
    }
    /* (d) large inputs (12000 values: above the library's 4096 / 8192 / 10000 size thresholds): every unordered pair of
     * large operations (quick: same codec or same input or neighbours in the table), and thorough: every large
     * operation against every fifth small one */
    if (vh_section_begin("large")) {
        int lcomplete = 1;
        for (int i = C17_NOPS; i < C17_NALL && lcomplete; i++) {
            for (int j = i; j < C17_NALL; j++) {
                int same_codec = C17_OPS[i].arg == C17_OPS[j].arg, same_input = C17_OPS[i].input == C17_OPS[j].input;
                if (!vh_thorough && !(same_codec || (same_input && (j - i) <= 9))) {
                    continue;
                }
                if (!vh_case()) {
                    continue;
                }
                if (vh_deadline_hit()) {
                    lcomplete = 0;
                    break;
                }
                ops[0][0] = i;
                ops[1][0] = j;
                snprintf(HNAME, sizeof HNAME, "threads {%s, %s}", C17_OPS[i].name, C17_OPS[j].name);
                run_harness(2, 1, ops, 1, 200);
            }
            char ck[96];
            snprintf(ck, sizeof ck, "large/%s", C17_OPS[i].name);
            vh_class(ck, "x large operations j >= i");
        }
        if (vh_thorough) {
            for (int i = C17_NOPS; i < C17_NALL && lcomplete; i++) {
                for (int j = (i % 5); j < C17_NOPS; j += 5) {
                    if (!vh_case()) {
                        continue;
                    }
                    if (vh_deadline_hit()) {
                        lcomplete = 0;
                        break;
                    }
                    ops[0][0] = i;
                    ops[1][0] = j;
                    snprintf(HNAME, sizeof HNAME, "threads {%s, %s[input %d]}", C17_OPS[i].name, C17_OPS[j].name, C17_OPS[j].input);
                    run_harness(2, 1, ops, 1, 200);
                }
            }
        }
        vh_flag("all_large_pairs", lcomplete);
    }
    /* (e) records: adjacent varint slots of one 8-byte aligned record, each updated in place by its own thread. The
     * in-place adders may touch only the bytes of their own slot, so no two such calls conflict. */
    if (vh_section_begin("records")) {
        for (int i = C17_NALL; i < C17_NALL + C17_NREC; i++) {
            for (int j = i + 1; j < C17_NALL + C17_NREC; j++) {
                if (!vh_case()) {
                    continue;
                }
                ops[0][0] = i;
                ops[1][0] = j;
                snprintf(HNAME, sizeof HNAME, "threads {%s, %s}", C17_OPS[i].name, C17_OPS[j].name);
                run_harness(2, 1, ops, max_bound, 4000);
            }
        }
        ops[0][0] = C17_NALL + 0;
        ops[1][0] = C17_NALL + 1;
        ops[2][0] = C17_NALL + 5;
        if (vh_case()) {
            snprintf(HNAME, sizeof HNAME, "threads {three record slots}");
            run_harness(3, 1, ops, 1, 4000);
        }
        vh_class("records", "%d slots, every pair of distinct slots as two threads", C17_NREC);
    }
    /* (f) one dictionary object shared by all threads through `const varintDict *` (Find / Lookup / EncodeWithDict):
     * a shared read-only input like the arrays - no call may write to it, and every call returns what it returns alone */
    if (vh_section_begin("shared_dict")) {
        int a = C17_NALL + C17_NREC, b = a + 1;
        static const int COMBO[4][3] = {{0, 1, -1}, {0, 0, -1}, {1, 1, -1}, {0, 1, 0}};
        for (int k = 0; k < 4; k++) {
            if (!vh_case()) {
                continue;
            }
            int nt = COMBO[k][2] < 0 ? 2 : 3;
            for (int t = 0; t < nt; t++) {
                ops[t][0] = COMBO[k][t] ? b : a;
            }
            snprintf(HNAME, sizeof HNAME, "threads {%s, %s%s}", C17_OPS[ops[0][0]].name, C17_OPS[ops[1][0]].name, nt == 3 ? ", and the first again" : "");
            run_harness(nt, 1, ops, nt == 3 ? 1 : max_bound, 4000);
        }
        ops[0][0] = a;
        ops[1][0] = 0; /* a private-dictionary operation next to the shared one */
        for (int i = 0; i < C17_NOPS; i++) {
            if (!strcmp(C17_OPS[i].name, "dict")) {
                ops[1][0] = i;
                break;
            }
        }
        if (vh_case()) {
            snprintf(HNAME, sizeof HNAME, "threads {%s, %s}", C17_OPS[ops[0][0]].name, C17_OPS[ops[1][0]].name);
            run_harness(2, 1, ops, 1, 4000);
        }
        vh_class("shared_dict", "two / three threads on one shared dictionary object");
    }
    /* (b) 16 threads, each running every operation, each thread a different rotation of the list */
    if (vh_section_begin("sixteen") && vh_case()) {
        int per = C17_NOPS > MAXOPS_PER_THREAD ? MAXOPS_PER_THREAD : C17_NOPS;
        for (int t = 0; t < 16; t++) {
            for (int k = 0; k < per; k++) {
                ops[t][k] = (t * 5 + k) % C17_NOPS;
            }
        }
        snprintf(HNAME, sizeof HNAME, "16 threads x %d operations (rotations)", per);
        cap_is_expected = 1; /* 16! start orders: only the three serial orders and the default schedule are run */
        run_harness(16, per, ops, 0, 1);
        cap_is_expected = 0;
        vh_class("sixteen", "%s", HNAME);
    }
    vh_count("calls", n_exec);
    vh_count("executions", n_exec);
    vh_count("events", n_events);
    vh_count("choice_points", n_points);
    vh_count("schedules_bound0", sched_per_bound[0]);
    vh_count("schedules_bound1", sched_per_bound[1]);
    vh_count("schedules_bound2", sched_per_bound[2]);
    vh_count("distinct_outcomes_summed_over_harnesses", distinct_outcomes);
    vh_flag("enumeration_not_capped", !explore_capped);
    vh_write_out();
    return 0;
}
