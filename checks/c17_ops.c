/* c17_ops.c - the operation bodies of C17. This translation unit expands the library's macros and static
 * inline functions, so it is compiled with the same instrumentation as the library (code under test).
 * Every operation reads only its shared read-only input and writes only into the private buffers of its ctx. */
#include <stdlib.h>
#include <string.h>

#include "c17_ops.h"

#include "varint.h"
#include "varintAdaptive.h"
#include "varintBP128.h"
#include "varintBitmap.h"
#include "varintChained.h"
#include "varintChainedSimple.h"
#include "varintDelta.h"
#include "varintDict.h"
#include "varintElias.h"
#include "varintExternal.h"
#include "varintExternalBigEndian.h"
#include "varintFOR.h"
#include "varintFloat.h"
#include "varintGroup.h"
#include "varintPFOR.h"
#include "varintRLE.h"
#include "varintSplit.h"
#include "varintSplitFull.h"
#include "varintSplitFull16.h"
#include "varintSplitFullNoZero.h"
#include "varintTagged.h"

#define PACK_STORAGE_BITS 12
#define PACK_STATIC
#define PACK_FUNCTION_PREFIX c17pk
#include "varintPacked.h"
#define PACK_STORAGE_BITS 7
#define PACK_STATIC
#define PACK_STORAGE_COMPACT
#define PACK_FUNCTION_PREFIX c17pkc
#include "varintPacked.h"

#include "varintBitstream.h"

/* inputs: defined const so that they live in read-only data */
#define R5(b) (b), (b) + 3, (b) + 6, (b) + 9, (b) + 12
static const uint64_t C17_SMALL[3][160] = {
    {R5(1000), R5(1015), R5(1030), R5(1045), 5000000000ULL},
    {7, 7, 7, 7, 900, 900, 3, 3, 3, 3, 3, 70000, 70000, 1, 2, 0xffffffffffffffffULL, 12, 12, 12, 12, 5},
    {R5(100), R5(200), R5(300), R5(400), R5(500), R5(600), R5(700), R5(800), R5(900), R5(1000), R5(1100), R5(1200), R5(1300), R5(1400), R5(1500), R5(1600), R5(1700), R5(1800), R5(1900), R5(2000),
     R5(2100), R5(2200), R5(2300), R5(2400), R5(2500), R5(2600)}};
static uint64_t C17_LARGE[3][C17_LARGE_N];
static uint64_t C17_MEDIUM[3][C17_MEDIUM_N];
const uint64_t *C17_IN[C17_NIN] = {C17_SMALL[0], C17_SMALL[1], C17_SMALL[2], C17_LARGE[0], C17_LARGE[1], C17_LARGE[2], C17_MEDIUM[0], C17_MEDIUM[1], C17_MEDIUM[2]};
const size_t C17_INN[C17_NIN] = {21, 21, 130, C17_LARGE_N, C17_LARGE_N, C17_LARGE_N, C17_MEDIUM_N, C17_MEDIUM_N, C17_MEDIUM_N};
const size_t C17_INBYTES[C17_NIN] = {sizeof C17_SMALL[0], sizeof C17_SMALL[1], sizeof C17_SMALL[2], sizeof C17_LARGE[0], sizeof C17_LARGE[1], sizeof C17_LARGE[2], sizeof C17_MEDIUM[0], sizeof C17_MEDIUM[1], sizeof C17_MEDIUM[2]};
uint8_t C17_REC[64] __attribute__((aligned(8)));
void c17_reset_record(void) {
    memset(C17_REC, 0x5a, sizeof C17_REC);
    /* slots 0 and 1: 3-byte external varints at bytes 0..2 and 3..5; slots 2 and 3: 3-byte tagged varints at 16..18 and 19..21;
     * slots 4 and 5: a 5-byte external at 32..36 and a 3-byte external at 37..39 */
    varintExternalPutFixedWidth(C17_REC + 0, 1000, VARINT_WIDTH_24B);
    varintExternalPutFixedWidth(C17_REC + 3, 70000, VARINT_WIDTH_24B);
    varintTaggedPut64(C17_REC + 16, 3000);
    varintTaggedPut64(C17_REC + 19, 60000);
    varintExternalPutFixedWidth(C17_REC + 32, 5000000000ULL, VARINT_WIDTH_40B);
    varintExternalPutFixedWidth(C17_REC + 37, 9, VARINT_WIDTH_24B);
}
/* shared dictionary: 600 entries (above the sizes at which a lookup might take a different path), built once */
#define C17_SHD_ENTRIES 600
#define C17_SHD_Q 10
static varintDict *C17_SHDICT;
static uint64_t C17_SHD_SRC[C17_SHD_ENTRIES];
static uint64_t C17_SHD_QUERY[2][C17_SHD_Q];
const void *C17_SHREG[C17_NSHREG];
size_t C17_SHREG_BYTES[C17_NSHREG];
static void c17_init_shared_dict(void) {
    for (size_t i = 0; i < C17_SHD_ENTRIES; i++) {
        C17_SHD_SRC[i] = 100000 + 7 * i;
    }
    /* thread 0 alternates between the low and the high end, thread 1 walks the middle outwards */
    static const uint32_t QI[2][C17_SHD_Q] = {{3, 590, 10, 580, 299, 300, 1, 598, 150, 450}, {300, 280, 320, 200, 400, 100, 500, 20, 570, 301}};
    for (int t = 0; t < 2; t++) {
        for (int i = 0; i < C17_SHD_Q; i++) {
            C17_SHD_QUERY[t][i] = C17_SHD_SRC[QI[t][i]];
        }
    }
    C17_SHDICT = varintDictCreate();
    if (!C17_SHDICT || varintDictBuild(C17_SHDICT, C17_SHD_SRC, C17_SHD_ENTRIES) != 0) {
        abort();
    }
    C17_SHREG[0] = C17_SHDICT;
    C17_SHREG_BYTES[0] = sizeof *C17_SHDICT;
    C17_SHREG[1] = C17_SHDICT->values;
    C17_SHREG_BYTES[1] = (size_t)C17_SHDICT->capacity * 8;
    C17_SHREG[2] = C17_SHD_QUERY[0];
    C17_SHREG_BYTES[2] = sizeof C17_SHD_QUERY[0];
    C17_SHREG[3] = C17_SHD_QUERY[1];
    C17_SHREG_BYTES[3] = sizeof C17_SHD_QUERY[1];
}
/* ---- shared-dictionary operations: lookups and an encode through the one shared `const varintDict *` */
static void o_bytes(c17_ctx *c, const void *p, size_t n);
static void o_u64(c17_ctx *c, uint64_t v);
static void op_shdict(c17_ctx *c) {
    const varintDict *d = C17_SHDICT;
    const uint64_t *q = C17_SHD_QUERY[c->arg & 1];
    for (int i = 0; i < C17_SHD_Q; i++) {
        int32_t f = varintDictFind(d, q[i]);
        o_u64(c, (uint64_t)(int64_t)f);
        o_u64(c, f >= 0 ? varintDictLookup(d, (uint32_t)f) : 0);
    }
    o_u64(c, (uint64_t)(int64_t)varintDictFind(d, 99999)); /* absent */
    size_t w = varintDictEncodeWithDict(c->enc, d, q, C17_SHD_Q);
    o_u64(c, w);
    o_bytes(c, c->enc, w < 16384 ? w : 0);
    o_u64(c, varintDictEncodedSizeWithDict(d, C17_SHD_Q));
}
void c17_init_inputs(void) {
    c17_init_shared_dict();
    for (size_t i = 0; i < C17_MEDIUM_N; i++) {
        C17_MEDIUM[0][i] = 1000000 + (i * 7919) % 900;          /* dense, ~900 distinct values */
        C17_MEDIUM[1][i] = i * 5 + i % 3;                       /* strictly increasing, < 65536 */
        C17_MEDIUM[2][i] = ((i * 31) % 37) * 1000003 + (i % 499 == 0 ? (1ULL << 40) : 0);
    }
    for (size_t i = 0; i < C17_LARGE_N; i++) {
        C17_LARGE[0][i] = 1000000 + (i * 7919) % 40000;       /* dense, unsorted, range < 65536, mostly distinct */
        C17_LARGE[1][i] = i * 5 + i % 3;                       /* strictly increasing, < 65536 */
        C17_LARGE[2][i] = ((i * 31) % 37) * 1000003 + (i % 997 == 0 ? (1ULL << 40) : 0); /* 37 distinct values, rare outliers */
    }
}

static void o_bytes(c17_ctx *c, const void *p, size_t n) {
    if (c->obs_len + n > C17_OBS_MAX) {
        n = C17_OBS_MAX - c->obs_len;
    }
    memcpy(c->obs + c->obs_len, p, n);
    c->obs_len += (uint32_t)n;
}
static void o_u64(c17_ctx *c, uint64_t v) { o_bytes(c, &v, 8); }

/* ---- scalar families */
static void op_scalars(c17_ctx *c) {
    for (size_t i = 0; i < c->n; i++) {
        uint64_t v = c->in[i], g = 0;
        uint8_t *b = c->enc;
        int l;
        switch (c->arg) {
        case 0:
            l = (int)varintTaggedPut64(b, v);
            o_bytes(c, b, (size_t)l);
            o_u64(c, (uint64_t)varintTaggedGet64(b, &g));
            o_u64(c, g);
            o_u64(c, (uint64_t)varintTaggedLen(v));
            break;
        case 1:
            l = (int)varintExternalPut(b, v);
            o_bytes(c, b, (size_t)l);
            o_u64(c, varintExternalGet(b, (varintWidth)l));
            l = (int)varintExternalBigEndianPut(b, v);
            o_bytes(c, b, (size_t)l);
            o_u64(c, varintExternalBigEndianGet(b, (varintWidth)l));
            break;
        case 2:
            l = (int)varintChainedPutVarint(b, v);
            o_bytes(c, b, (size_t)l);
            o_u64(c, (uint64_t)varintChainedGetVarint(b, &g));
            o_u64(c, g);
            l = (int)varintChainedSimpleEncode64(b, v);
            o_bytes(c, b, (size_t)l);
            o_u64(c, (uint64_t)varintChainedSimpleDecode64(b, &g));
            o_u64(c, g);
            break;
        case 3: {
            int len = 0, gl = 0;
            varintSplitPut_(b, len, v);
            o_bytes(c, b, (size_t)len);
            varintSplitGet_(b, gl, g);
            o_u64(c, g);
            varintSplitFullPut_(b, len, v);
            o_bytes(c, b, (size_t)len);
            varintSplitFullGet_(b, gl, g);
            o_u64(c, g);
            varintSplitFull16Put_(b, len, v);
            o_bytes(c, b, (size_t)len);
            varintSplitFull16Get_(b, gl, g);
            o_u64(c, g);
            if (v) {
                varintSplitFullNoZeroPut_(b, len, v);
                o_bytes(c, b, (size_t)len);
                varintSplitFullNoZeroGet_(b, gl, g);
                o_u64(c, g);
            }
            (void)gl;
            break;
        }
        case 4: { /* in-place add on a private slot */
            varintTaggedPut64(b, v >> 1);
            o_u64(c, (uint64_t)varintTaggedAddGrow(b, 1000));
            o_bytes(c, b, 9);
            varintExternalPutFixedWidth(b, v >> 1, VARINT_WIDTH_64B);
            o_u64(c, (uint64_t)varintExternalAddGrow(b, VARINT_WIDTH_64B, 77));
            o_bytes(c, b, 8);
            break;
        }
        }
    }
}
static void op_delta(c17_ctx *c) {
    size_t w = varintDeltaEncodeUnsigned(c->enc, c->in, c->n);
    o_u64(c, w);
    o_bytes(c, c->enc, w);
    o_u64(c, varintDeltaDecodeUnsigned(c->enc, c->n, c->dec));
    o_bytes(c, c->dec, c->n * 8);
}
static void op_for(c17_ctx *c) {
    varintFORMeta m;
    memset(&m, 0, sizeof m);
    size_t w = c->arg == 0 ? varintFOREncode(c->enc, c->in, c->n, &m) : varintFORBatchEncode(c->enc, c->in, c->n, NULL);
    o_u64(c, w);
    o_bytes(c, c->enc, w);
    o_u64(c, c->arg == 0 ? varintFORDecode(c->enc, c->dec, c->n) : varintFORBatchDecode(c->enc, c->dec, c->n));
    o_bytes(c, c->dec, c->n * 8);
    for (size_t i = 0; i < c->n; i += 3) {
        o_u64(c, varintFORGetAt(c->enc, i));
    }
    o_u64(c, m.minValue + m.count);
    varintFORMeta r;
    memset(&r, 0, sizeof r);
    varintFORReadMetadata(c->enc, &r);
    o_u64(c, r.count + r.minValue + (uint64_t)r.offsetWidth + r.encodedSize);
    o_u64(c, varintFORGetCount(c->enc) + varintFORGetMinValue(c->enc) + (uint64_t)varintFORGetOffsetWidth(c->enc));
    size_t b = varintFORDecodeBlock(c->enc, c->dec, c->n / 3, 5);
    o_u64(c, b);
    o_bytes(c, c->dec, b * 8);
    varintFORMeta a;
    memset(&a, 0, sizeof a);
    varintFORBatchAnalyze(c->in, c->n, &a);
    o_u64(c, a.range + varintFORSize(&a) + (uint64_t)varintFORComputeWidth(a.range));
}
static void op_pfor(c17_ctx *c) {
    varintPFORMeta m, d;
    memset(&m, 0, sizeof m);
    memset(&d, 0, sizeof d);
    size_t w = varintPFOREncode(c->enc, c->in, (uint32_t)c->n, (uint32_t)c->arg, &m);
    o_u64(c, w);
    o_bytes(c, c->enc, w);
    o_u64(c, varintPFORDecode(c->enc, c->dec, &d));
    o_bytes(c, c->dec, c->n * 8);
    for (size_t i = 0; i < c->n; i += 2) {
        o_u64(c, varintPFORGetAt(c->enc, (uint32_t)i, &d));
    }
    o_u64(c, m.exceptionCount);
    varintPFORMeta r, t;
    memset(&r, 0, sizeof r);
    memset(&t, 0, sizeof t);
    o_u64(c, varintPFORReadMeta(c->enc, &r));
    o_u64(c, r.count + r.min + (uint64_t)r.width + r.exceptionCount);
    o_u64(c, (uint64_t)varintPFORComputeThreshold(c->in, (uint32_t)c->n, (uint32_t)c->arg, &t));
    o_u64(c, varintPFORSize(&t));
}
static void op_group(c17_ctx *c) {
    uint8_t fc = (uint8_t)(c->n > 64 ? 64 : c->n), got = 0;
    size_t w = varintGroupEncode(c->enc, c->in, fc);
    o_u64(c, w);
    o_bytes(c, c->enc, w);
    o_u64(c, varintGroupDecode(c->enc, c->dec, &got, 64));
    o_bytes(c, c->dec, (size_t)fc * 8);
    o_u64(c, varintGroupSize(c->in, fc));
    o_u64(c, varintGroupGetSize(c->enc));
    o_u64(c, varintGroupGetFieldCount(c->enc));
    for (uint8_t i = 0; i < fc; i++) {
        uint64_t f = 0;
        o_u64(c, varintGroupGetField(c->enc, i, &f));
        o_u64(c, f);
        o_u64(c, (uint64_t)varintGroupGetFieldWidth(c->enc, i));
    }
}
static void op_dict(c17_ctx *c) {
    size_t w = varintDictEncode(c->enc, c->in, c->n);
    o_u64(c, w);
    o_bytes(c, c->enc, w);
    o_u64(c, varintDictDecodeInto(c->enc, w, c->dec, c->n));
    o_bytes(c, c->dec, c->n * 8);
    size_t oc = 0;
    uint64_t *r = varintDictDecode(c->enc, w, &oc);
    o_u64(c, oc);
    if (r) {
        o_bytes(c, r, oc * 8);
        free(r);
    }
    o_u64(c, varintDictEncodedSize(c->in, c->n));
    varintDict *d = varintDictCreate();
    if (d) {
        o_u64(c, (uint64_t)varintDictBuild(d, c->in, c->n));
        for (size_t i = 0; i < c->n; i += 4) {
            int32_t f = varintDictFind(d, c->in[i]);
            o_u64(c, (uint64_t)f);
            o_u64(c, varintDictLookup(d, (uint32_t)f));
        }
        size_t w2 = varintDictEncodeWithDict(c->enc2, d, c->in, c->n);
        o_u64(c, w2 + varintDictEncodedSizeWithDict(d, c->n));
        o_bytes(c, c->enc2, w2);
        varintDictFree(d);
    }
    varintDictStats st;
    memset(&st, 0, sizeof st);
    o_u64(c, (uint64_t)varintDictGetStats(c->in, c->n, &st));
    o_u64(c, st.uniqueCount + st.totalBytes);
}
static void op_rle(c17_ctx *c) {
    varintRLEMeta m;
    memset(&m, 0, sizeof m);
    size_t w = c->arg ? varintRLEEncodeWithHeader(c->enc, c->in, c->n, &m) : varintRLEEncode(c->enc, c->in, c->n, &m);
    o_u64(c, w);
    o_bytes(c, c->enc, w);
    o_u64(c, c->arg ? varintRLEDecodeWithHeader(c->enc, c->dec, c->n) : varintRLEDecode(c->enc, c->dec, c->n));
    o_bytes(c, c->dec, c->n * 8);
    o_u64(c, m.runCount);
    if (!c->arg) {
        for (size_t i = 0; i < c->n; i += 2) {
            o_u64(c, varintRLEGetAt(c->enc, i));
        }
        o_u64(c, varintRLEGetRunCount(c->enc, w));
        size_t rl = 0;
        uint64_t rv = 0;
        o_u64(c, varintRLEDecodeRun(c->enc, &rl, &rv));
        o_u64(c, rl + rv);
        o_u64(c, varintRLESize(c->in, c->n) + (uint64_t)varintRLEIsBeneficial(c->in, c->n));
        varintRLEMeta a;
        memset(&a, 0, sizeof a);
        o_u64(c, (uint64_t)varintRLEAnalyze(c->in, c->n, &a));
        o_u64(c, a.runCount + a.encodedSize + a.uniqueValues);
    } else {
        o_u64(c, varintRLEGetCount(c->enc));
    }
}
static void op_elias(c17_ctx *c) {
    uint64_t t[160];
    for (size_t i = 0; i < c->n; i++) {
        t[i] = c->in[i] ? c->in[i] : 1;
    }
    varintEliasMeta m;
    memset(&m, 0, sizeof m);
    size_t w = c->arg ? varintEliasDeltaEncodeArray(c->enc, t, c->n, &m) : varintEliasGammaEncodeArray(c->enc, t, c->n, &m);
    o_u64(c, w);
    o_bytes(c, c->enc, w);
    o_u64(c, c->arg ? varintEliasDeltaDecodeArray(c->enc, m.totalBits, c->dec, c->n) : varintEliasGammaDecodeArray(c->enc, m.totalBits, c->dec, c->n));
    o_bytes(c, c->dec, c->n * 8);
    varintBitWriter bw;
    varintBitWriterInit(&bw, c->enc2, 64);
    o_u64(c, c->arg ? varintEliasDeltaEncode(&bw, t[0]) : varintEliasGammaEncode(&bw, t[0]));
    o_u64(c, c->arg ? varintEliasDeltaBits(t[1 % c->n]) : varintEliasGammaBits(t[1 % c->n]));
    varintBitReader br;
    varintBitReaderInit(&br, c->enc2, bw.bitPos);
    o_u64(c, c->arg ? varintEliasDeltaDecode(&br) : varintEliasGammaDecode(&br));
    o_u64(c, (uint64_t)(c->arg ? varintEliasDeltaIsBeneficial(t, c->n) : varintEliasGammaIsBeneficial(t, c->n)));
}
static void op_bp128(c17_ctx *c) {
    varintBP128Meta m;
    memset(&m, 0, sizeof m);
    size_t w, r;
    if (c->arg == 0) {
        w = varintBP128Encode64(c->enc, c->in, c->n, &m);
        r = varintBP128Decode64(c->enc, c->dec, c->n);
        o_bytes(c, c->dec, c->n * 8);
    } else if (c->arg == 1) {
        uint64_t s[160];
        memcpy(s, c->in, c->n * 8);
        for (size_t i = 1; i < c->n; i++) {
            if (s[i] < s[i - 1]) {
                s[i] = s[i - 1];
            }
        }
        w = varintBP128DeltaEncode64(c->enc, s, c->n, &m);
        r = varintBP128DeltaDecode64(c->enc, c->dec, c->n);
        o_bytes(c, c->dec, c->n * 8);
    } else {
        uint32_t s[160], d[160];
        for (size_t i = 0; i < c->n; i++) {
            s[i] = (uint32_t)c->in[i];
        }
        w = varintBP128Encode32(c->enc, s, c->n, &m);
        r = varintBP128Decode32(c->enc, d, c->n);
        o_bytes(c, d, c->n * 4);
    }
    o_u64(c, w);
    o_u64(c, r);
    o_bytes(c, c->enc, w);
    o_u64(c, m.blockCount);
    if (c->arg == 0) {
        o_u64(c, varintBP128GetCount(c->enc, w));
        o_u64(c, (uint64_t)varintBP128MaxBitWidth64(c->in, c->n) + (uint64_t)varintBP128IsBeneficial64(c->in, c->n) + (uint64_t)varintBP128IsSorted64(c->in, c->n));
    }
}
static void op_adaptive(c17_ctx *c) {
    varintAdaptiveMeta m;
    memset(&m, 0, sizeof m);
    uint64_t t[160];
    memcpy(t, c->in, c->n * 8);
    if (c->arg == VARINT_ADAPTIVE_BITMAP) {
        for (size_t i = 0; i < c->n; i++) {
            t[i] = 10 + i * 3;
        }
    }
    size_t w = c->arg < 0 ? varintAdaptiveEncode(c->enc, t, c->n, &m) : varintAdaptiveEncodeWith(c->enc, t, c->n, (varintAdaptiveEncodingType)c->arg, &m);
    o_u64(c, w);
    o_bytes(c, c->enc, w);
    o_u64(c, varintAdaptiveDecode(c->enc, c->dec, c->n, NULL));
    o_bytes(c, c->dec, c->n * 8);
    o_u64(c, (uint64_t)m.encodingType);
    varintAdaptiveMeta rm;
    memset(&rm, 0, sizeof rm);
    o_u64(c, varintAdaptiveReadMeta(c->enc, &rm));
    o_u64(c, rm.originalCount + rm.encodedSize + (uint64_t)rm.encodingType);
    varintAdaptiveDataStats st;
    varintAdaptiveAnalyze(t, c->n, &st);
    o_u64(c, st.uniqueCount + st.range + st.avgDelta + (uint64_t)varintAdaptiveSelectEncoding(&st));
    o_u64(c, varintAdaptiveCountUnique(t, c->n) + (uint64_t)varintAdaptiveCheckSorted(t, c->n) + varintAdaptiveAvgDelta(t, c->n));
}
static void op_float(c17_ctx *c) {
    double d[160], out[160];
    for (size_t i = 0; i < c->n; i++) {
        d[i] = (double)(c->in[i] % 100000) / 7.0;
    }
    size_t w = varintFloatEncode(c->enc, d, c->n, (varintFloatPrecision)(c->arg & 3), (varintFloatEncodingMode)(c->arg >> 2));
    o_u64(c, w);
    o_bytes(c, c->enc, w);
    o_u64(c, varintFloatDecode(c->enc, c->n, out));
    o_bytes(c, out, c->n * 8);
}
static void op_packed(c17_ctx *c) {
    /* packed arrays and a bitstream on private (disjoint) storage */
    memset(c->enc, 0, 512);
    for (size_t i = 0; i < c->n; i++) {
        if (c->arg == 0) {
            c17pk12InsertSorted(c->enc, (uint32_t)i, (uint16_t)(c->in[i] & 0xfff));
        } else {
            c17pkc7Set(c->enc, (uint32_t)i, (uint8_t)(c->in[i] & 0x7f));
        }
    }
    o_bytes(c, c->enc, 256);
    for (size_t i = 0; i < c->n; i++) {
        o_u64(c, c->arg == 0 ? c17pk12Get(c->enc, (uint32_t)i) : c17pkc7Get(c->enc, (uint32_t)i));
    }
    if (c->arg == 0) {
        o_u64(c, (uint64_t)c17pk12Member(c->enc, (uint32_t)c->n, (uint16_t)(c->in[3] & 0xfff)));
    }
    memset(c->enc2, 0, 2048);
    size_t off = 3;
    for (size_t i = 0; i < c->n; i++) {
        varintBitstreamSet((vbits *)c->enc2, off, 13, c->in[i] & 0x1fff);
        off += 13;
    }
    off = 3;
    for (size_t i = 0; i < c->n; i++) {
        o_u64(c, varintBitstreamGet((const vbits *)c->enc2, off, 13));
        off += 13;
    }
}
static void op_bitmap(c17_ctx *c) {
    /* a private bitmap object per call: create, fill from the shared input, serialise, free */
    varintBitmap *a = varintBitmapCreate();
    if (!a) {
        return;
    }
    for (size_t i = 0; i < c->n; i++) {
        varintBitmapAdd(a, (uint16_t)c->in[i]);
    }
    if (c->arg) {
        varintBitmapAddRange(a, 30000, 36000);
    }
    size_t w = varintBitmapEncode(a, c->enc);
    o_u64(c, w);
    o_bytes(c, c->enc, w > 1000 ? 1000 : w);
    o_u64(c, varintBitmapCardinality(a));
    varintBitmapFree(a);
}

/* ---- large inputs: one function, the codec chosen by arg; observations are sizes, results and digests */
static uint64_t digest(const void *p, size_t n) {
    const uint8_t *b = (const uint8_t *)p;
    uint64_t h = 1469598103934665603ULL;
    for (size_t i = 0; i < n; i++) {
        h = (h ^ b[i]) * 1099511628211ULL;
    }
    return h;
}
static void op_large(c17_ctx *c) {
    size_t n = c->n, w = 0, r = 0;
    switch (c->arg) {
    case 0: {
        varintFORMeta m;
        memset(&m, 0, sizeof m);
        w = varintFOREncode(c->enc, c->in, n, &m);
        r = varintFORDecode(c->enc, c->dec, n);
        o_u64(c, m.range + (uint64_t)m.offsetWidth);
        break;
    }
    case 1: {
        varintPFORMeta m, d, t;
        memset(&m, 0, sizeof m);
        memset(&d, 0, sizeof d);
        memset(&t, 0, sizeof t);
        o_u64(c, (uint64_t)varintPFORComputeThreshold(c->in, (uint32_t)n, 95, &t));
        o_u64(c, t.thresholdValue + t.exceptionCount + (uint64_t)t.width + varintPFORSize(&t));
        w = varintPFOREncode(c->enc, c->in, (uint32_t)n, 95, &m);
        r = varintPFORDecode(c->enc, c->dec, &d);
        o_u64(c, m.exceptionCount + m.thresholdValue);
        break;
    }
    case 2:
        w = varintDeltaEncodeUnsigned(c->enc, c->in, n);
        r = varintDeltaDecodeUnsigned(c->enc, n, c->dec);
        break;
    case 3:
        w = varintDictEncode(c->enc, c->in, n);
        r = varintDictDecodeInto(c->enc, w, c->dec, n);
        o_u64(c, varintDictEncodedSize(c->in, n));
        break;
    case 4: {
        varintRLEMeta m;
        memset(&m, 0, sizeof m);
        w = varintRLEEncode(c->enc, c->in, n, &m);
        r = varintRLEDecode(c->enc, c->dec, n);
        o_u64(c, m.runCount);
        break;
    }
    case 5: {
        varintBP128Meta m;
        memset(&m, 0, sizeof m);
        w = varintBP128Encode64(c->enc, c->in, n, &m);
        r = varintBP128Decode64(c->enc, c->dec, n);
        o_u64(c, m.blockCount + (uint64_t)m.maxBitWidth);
        break;
    }
    case 6: {
        varintAdaptiveMeta m;
        memset(&m, 0, sizeof m);
        w = varintAdaptiveEncode(c->enc, c->in, n, &m);
        r = varintAdaptiveDecode(c->enc, c->dec, n, NULL);
        o_u64(c, (uint64_t)m.encodingType);
        break;
    }
    case 7: {
        varintAdaptiveDataStats st;
        varintAdaptiveAnalyze(c->in, n, &st);
        o_u64(c, st.uniqueCount + st.range + st.avgDelta + (uint64_t)varintAdaptiveSelectEncoding(&st));
        o_u64(c, varintAdaptiveCountUnique(c->in, n) + (uint64_t)varintAdaptiveCheckSorted(c->in, n) + varintAdaptiveAvgDelta(c->in, n));
        varintDictStats ds;
        memset(&ds, 0, sizeof ds);
        o_u64(c, (uint64_t)varintDictGetStats(c->in, n, &ds));
        o_u64(c, ds.uniqueCount + ds.totalBytes);
        varintFORMeta a;
        memset(&a, 0, sizeof a);
        varintFORBatchAnalyze(c->in, n, &a);
        o_u64(c, a.range + varintFORSize(&a));
        varintRLEMeta ra;
        memset(&ra, 0, sizeof ra);
        o_u64(c, (uint64_t)varintRLEAnalyze(c->in, n, &ra));
        o_u64(c, ra.runCount + ra.encodedSize + ra.uniqueValues);
        break;
    }
    case 8: {
        varintBitmap *a = varintBitmapCreate();
        if (!a) {
            return;
        }
        uint16_t *v16 = (uint16_t *)c->enc2;
        for (size_t i = 0; i < n; i++) {
            v16[i] = (uint16_t)c->in[i];
        }
        varintBitmapAddMany(a, v16, (uint32_t)n);
        w = varintBitmapEncode(a, c->enc);
        varintBitmap *b = varintBitmapDecode(c->enc, w);
        if (b) {
            varintBitmap *x = varintBitmapAnd(a, b);
            if (x) {
                o_u64(c, varintBitmapCardinality(x));
                r = varintBitmapToArray(x, (uint16_t *)c->dec);
                varintBitmapFree(x);
            }
            varintBitmapFree(b);
        }
        o_u64(c, varintBitmapCardinality(a));
        varintBitmapFree(a);
        o_u64(c, w);
        o_u64(c, r);
        o_u64(c, digest(c->enc, w));
        o_u64(c, digest(c->dec, r * 2));
        return;
    }
    default: {
        double *d = (double *)c->enc2;
        for (size_t i = 0; i < n; i++) {
            d[i] = (double)(c->in[i] % 100000) / 7.0;
        }
        w = varintFloatEncode(c->enc, d, n, VARINT_FLOAT_PRECISION_HIGH, VARINT_FLOAT_MODE_COMMON_EXPONENT);
        r = varintFloatDecode(c->enc, n, (double *)c->dec);
        break;
    }
    }
    o_u64(c, w);
    o_u64(c, r);
    o_u64(c, digest(c->enc, w));
    o_u64(c, digest(c->dec, n * 8));
}

/* ---- record operations: in-place adds on one slot of the shared record */
static void op_record(c17_ctx *c) {
    static const int OFF[6] = {0, 3, 16, 19, 32, 37};
    static const int WID[6] = {3, 3, 3, 3, 5, 3};
    int slot = c->arg;
    uint8_t *p = C17_REC + OFF[slot];
    for (int k = 0; k < 3; k++) {
        if (slot == 2 || slot == 3) {
            o_u64(c, (uint64_t)varintTaggedAddNoGrow(p, k == 1 ? -1 : 2));
        } else {
            o_u64(c, (uint64_t)varintExternalAddNoGrow(p, (varintWidth)WID[slot], k == 1 ? -1 : 2));
        }
    }
    o_bytes(c, p, (size_t)WID[slot]);
}
int c17_record_slot(int op) { return op >= C17_NALL && op < C17_NALL + C17_NREC ? C17_OPS[op].arg : -1; }

#define OPS3(name, fn, arg) {name, fn, arg, 0}, {name, fn, arg, 1}, {name, fn, arg, 2}
#define OPS2(name, fn, arg) {name, fn, arg, 0}, {name, fn, arg, 1}
const c17_op C17_OPS[] = {
    OPS2("scalar.tagged", op_scalars, 0),
    OPS2("scalar.external LE/BE", op_scalars, 1),
    OPS2("scalar.chained/chainedSimple", op_scalars, 2),
    OPS2("scalar.split families", op_scalars, 3),
    OPS2("scalar.in-place add", op_scalars, 4),
    OPS3("delta", op_delta, 0),
    OPS3("FOR", op_for, 0),
    OPS2("FOR.batch", op_for, 1),
    OPS3("PFOR(95)", op_pfor, 95),
    OPS2("PFOR(90)", op_pfor, 90),
    OPS2("group", op_group, 0),
    OPS3("dict", op_dict, 0),
    OPS2("RLE", op_rle, 0),
    OPS2("RLE.header", op_rle, 1),
    OPS2("elias.gamma", op_elias, 0),
    OPS2("elias.delta", op_elias, 1),
    OPS3("BP128.64", op_bp128, 0),
    OPS2("BP128.delta64", op_bp128, 1),
    OPS2("BP128.32", op_bp128, 2),
    OPS3("adaptive.auto", op_adaptive, -1),
    OPS2("adaptive.FOR", op_adaptive, 1),
    OPS2("adaptive.PFOR", op_adaptive, 2),
    OPS2("adaptive.DICT", op_adaptive, 3),
    {"adaptive.BITMAP", op_adaptive, 4, 0},
    OPS2("float.HIGH/COMMON", op_float, 1 | (1 << 2)),
    {"float.FULL/DELTA", op_float, 0 | (2 << 2), 1},
    OPS2("packed12+bitstream", op_packed, 0),
    {"packed7compact+bitstream", op_packed, 1, 0},
    OPS2("bitmap(private object)", op_bitmap, 0),
    {"bitmap(private object, runs)", op_bitmap, 1, 1},
#define C17_FIRST_LARGE_LINE
    /* large operations (inputs 3, 4, 5) */
#define OPSL(name, arg) {name "[12000 dense]", op_large, arg, 3}, {name "[12000 increasing]", op_large, arg, 4}, {name "[12000 low-cardinality]", op_large, arg, 5}
    OPSL("large FOR", 0),
    OPSL("large PFOR(95)", 1),
    OPSL("large delta", 2),
    OPSL("large dict", 3),
    OPSL("large RLE", 4),
    OPSL("large BP128.64", 5),
    OPSL("large adaptive.auto", 6),
    OPSL("large analyze/stats", 7),
    OPSL("large bitmap", 8),
    OPSL("large float", 9),
    /* medium operations (inputs 6, 7, 8: 2000 values - between the library's 1024 and 10000 size thresholds) */
#define OPSM(name, arg) {name "[2000 dense]", op_large, arg, 6}, {name "[2000 increasing]", op_large, arg, 7}, {name "[2000 low-cardinality]", op_large, arg, 8}
    OPSM("medium FOR", 0),
    OPSM("medium PFOR(95)", 1),
    OPSM("medium delta", 2),
    OPSM("medium dict", 3),
    OPSM("medium RLE", 4),
    OPSM("medium BP128.64", 5),
    OPSM("medium adaptive.auto", 6),
    OPSM("medium analyze/stats", 7),
    OPSM("medium bitmap", 8),
    OPSM("medium float", 9),
    /* record operations (see c17_ops.h) */
    {"record: external 3-byte slot at +0", op_record, 0, 0},
    {"record: external 3-byte slot at +3", op_record, 1, 0},
    {"record: tagged 3-byte slot at +16", op_record, 2, 0},
    {"record: tagged 3-byte slot at +19", op_record, 3, 0},
    {"record: external 5-byte slot at +32", op_record, 4, 0},
    {"record: external 3-byte slot at +37", op_record, 5, 0},
    /* shared-dictionary operations (see c17_ops.h) */
    {"shared dict[600]: find/lookup/encode, queries at both ends", op_shdict, 0, 0},
    {"shared dict[600]: find/lookup/encode, queries from the middle outwards", op_shdict, 1, 0},
};
const int C17_NSHD = 2;
const int C17_NREC = 6;
const int C17_NALL = (int)(sizeof C17_OPS / sizeof *C17_OPS) - 6 - 2;
const int C17_NOPS = (int)(sizeof C17_OPS / sizeof *C17_OPS) - 66 - 2;
