/* bitstream.c - C11: bitstream writes are exact and isolated (E-enum).
 * Instances: default uint64_t/uint64_t and uint32_t/uint32_t words.
 * Space: bit offset in [0, 3W) x width 1..W x value alphabet x prior contents.
 * Oracle: stream + guard words == bit-array model (values written most-significant-first, in order);
 * Get == value; second/third run with PROT_NONE pages right after the last / before the first word
 * overlapping the range. Signed helpers: every representable sign-magnitude value of the alphabet. */
#include "vh.h"
#include <sys/mman.h>

#include "varintBitstream.h" /* default instance: 64-bit words */

void bs32_set(void *dst, size_t off, size_t w, uint64_t v);
uint64_t bs32_get(const void *src, size_t off, size_t w);
static void bs64_set(void *dst, size_t off, size_t w, uint64_t v) { varintBitstreamSet((vbits *)dst, off, w, (vbitsVal)v); }
static uint64_t bs64_get(const void *src, size_t off, size_t w) { return varintBitstreamGet((const vbits *)src, off, w); }

typedef struct {
    const char *name;
    int W;
    void (*set)(void *, size_t, size_t, uint64_t);
    uint64_t (*get)(const void *, size_t, size_t);
} binst;
static const binst INST[2] = {{"u64", 64, bs64_set, bs64_get}, {"u32", 32, bs32_set, bs32_get}};

/* model: bit p of the stream is bit (W-1 - p%W) of word p/W; words are native (little-endian) integers */
static void model_set(uint8_t *m, int W, size_t off, size_t w, uint64_t v) {
    for (size_t i = 0; i < w; i++) {
        size_t p = off + i;
        size_t word = p / (size_t)W, bitinword = (size_t)W - 1 - p % (size_t)W;
        size_t byte = word * (size_t)(W / 8) + bitinword / 8, bit = bitinword % 8;
        uint64_t b = (v >> (w - 1 - i)) & 1;
        m[byte] = (uint8_t)((m[byte] & ~(1u << bit)) | (b << bit));
    }
}

#define WORDS 5
#define PADW 2
static uint8_t BUF[(WORDS + 2 * PADW) * 8], MOD[(WORDS + 2 * PADW) * 8];

static size_t value_alphabet(size_t w, uint64_t *vals) {
    uint64_t mask = w == 64 ? UINT64_MAX : ((1ULL << w) - 1);
    size_t k = 0;
    if (w <= (vh_thorough ? 16u : 11u)) {
        for (uint64_t v = 0; v <= mask; v++) {
            vals[k++] = v;
        }
        return k;
    }
    vals[k++] = 0;
    vals[k++] = 1;
    vals[k++] = mask;
    vals[k++] = mask - 1;
    vals[k++] = 1ULL << (w - 1);
    vals[k++] = 0x5555555555555555ULL & mask;
    vals[k++] = 0xAAAAAAAAAAAAAAAAULL & mask;
    for (size_t b = 0; b < w; b++) {
        vals[k++] = 1ULL << b;
    }
    return k;
}

static char desc[256];

/* ---------------------------------------------------------------- far offsets
 * The offset argument is a size_t: a stream may be longer than 2^31, 2^32 ... bits, its word index larger than 2^32.
 * The stream is a PROT_NONE reservation of 2^42 bits (512 GiB of address space, nothing committed); for each call
 * only the pages of the window around the addressed words are made accessible, so (a) the window must equal the
 * model, written and read independently of the library, and (b) ANY access - read or write - to another word of the
 * whole stream faults and is reported with its position. */
#define FAR_MAP ((((size_t)1 << 42) / 8) + (1 << 16))
static void far_section(void) {
    if (!vh_section_begin("far-offsets")) {
        return;
    }
    size_t maplen = FAR_MAP;
    uint8_t *map = mmap(NULL, maplen, PROT_NONE, MAP_PRIVATE | MAP_ANONYMOUS | MAP_NORESERVE, -1, 0);
    if (map == MAP_FAILED) {
        vh_flag("far_offsets_mapped", 0);
        return;
    }
    vh_flag("far_offsets_mapped", 1);
    static const int EXPS[11] = {31, 32, 33, 34, 35, 36, 37, 38, 39, 40, 42};
    static const long DELTAS[12] = {-129, -65, -64, -33, -1, 0, 1, 31, 37, 63, 64, 4096 * 8 + 5};
    static const size_t WIDTHS[10] = {1, 7, 8, 16, 31, 32, 33, 40, 63, 64};
    for (int ii = 0; ii < 2; ii++) {
        const binst *I = &INST[ii];
        size_t W = (size_t)I->W, WB = W / 8;
        for (int ei = 0; ei < 11; ei++) {
            for (int di = 0; di < 12; di++) {
                for (int wi = 0; wi < 10; wi++) {
                    size_t w = WIDTHS[wi];
                    if (w > W) {
                        continue;
                    }
                    if (!vh_case()) {
                        continue;
                    }
                    size_t off = ((size_t)1 << EXPS[ei]) + (size_t)DELTAS[di];
                    if (EXPS[ei] == 42 && DELTAS[di] > 0) {
                        off = ((size_t)1 << 42) - (size_t)DELTAS[di] - 64; /* stay inside the reservation */
                    }
                    size_t firstw = off / W, lastw = (off + w - 1) / W;
                    size_t wlo = (firstw - 1) * WB, whi = (lastw + 2) * WB; /* window: one pad word each side */
                    if (whi > maplen) {
                        continue;
                    }
                    size_t plo = wlo & ~(size_t)4095, phi = (whi + 4095) & ~(size_t)4095;
                    if (mprotect(map + plo, phi - plo, PROT_READ | PROT_WRITE) != 0) {
                        vh_flag("far_offsets_mapped", 0);
                        continue;
                    }
                    uint64_t mask = w == 64 ? UINT64_MAX : ((1ULL << w) - 1);
                    uint64_t vv[3] = {mask, 0x5555555555555555ULL & mask, 1};
                    for (int bg = 0; bg < 2; bg++) {
                        for (int vi = 0; vi < 3; vi++) {
                            for (int mode = 0; mode < 2; mode++) { /* 0: library writes, we read; 1: we write, library reads */
                                uint64_t v = vv[vi];
                                uint8_t model[64];
                                size_t wl = whi - wlo;
                                memset(map + wlo, bg ? 0xff : 0x00, wl);
                                memset(model, bg ? 0xff : 0x00, wl);
                                /* model_set addresses bytes from the stream start: shift to the window */
                                model_set(model - wlo, (int)W, off, w, v);
                                snprintf(desc, sizeof desc, "%s words: offset 2^%d%+ld width %zu value 0x%" PRIx64 " prior %02x (%s)", I->name, EXPS[ei], DELTAS[di], w, v, bg ? 0xff : 0,
                                         mode ? "Get of independently written bits" : "Set");
                                uint64_t got = ~v;
                                if (mode) {
                                    memcpy(map + wlo, model, wl);
                                }
                                if (SB_ENTER()) {
                                    if (!mode) {
                                        I->set(map, off, w, v);
                                    }
                                    got = I->get(map, off, w);
                                    SB_LEAVE();
                                } else {
                                    uint8_t *fa = (uint8_t *)vh_fault_addr;
                                    if (fa >= map && fa < map + maplen) {
                                        vh_fail("bitstream.Set/Get", "touches_foreign_word", "untagged", "%s: range lies in stream bytes %zu..%zu but stream byte %zu was accessed", desc, wlo + WB, whi - WB - 1, (size_t)(fa - map));
                                    } else {
                                        vh_fail("bitstream.Set/Get", vh_fault_name(), "untagged", "%s: %s", desc, vh_fault_msg);
                                    }
                                }
                                vh_count("calls", mode ? 1 : 2);
                                vh_count("cases", 1);
                                if (memcmp(map + wlo, model, wl)) {
                                    vh_fail("bitstream.Set", "bits_outside_range_changed", "untagged", "%s: the words at the addressed position differ from the model", desc);
                                }
                                if (got != v) {
                                    vh_fail("bitstream.Get", "wrong_value", "untagged", "%s: Get returned 0x%" PRIx64, desc, got);
                                }
                            }
                        }
                    }
                    /* give the pages back and close the window again */
                    madvise(map + plo, phi - plo, MADV_DONTNEED);
                    mprotect(map + plo, phi - plo, PROT_NONE);
                    vh_count("windows", 1);
                    char ck[64];
                    snprintf(ck, sizeof ck, "%s/far/2^%d/%s", I->name, EXPS[ei], firstw == lastw ? "one-word" : "two-words");
                    vh_class(ck, "offset 2^%d%+ld width %zu", EXPS[ei], DELTAS[di], w);
                }
            }
        }
    }
    munmap(map, maplen);
}

/* ---------------------------------------------------------------- literal widths
 * Set / Get are static inline functions: at a call site whose width is a literal the compiler specialises them
 * (constant propagation, __builtin_constant_p). Every width 1..64 as a literal x every offset in [0, 3W) x values x
 * priors, against the same bit-array model (64-bit words; the 32-bit instance has its own translation unit). */
#define LITW_ONE(W)                                                                                                \
    for (size_t off = 0; off < 192; off++) {                                                                       \
        if ((off + (W) - 1) / 64 >= WORDS) {                                                                       \
            continue;                                                                                              \
        }                                                                                                          \
        uint64_t mask_ = (W) == 64 ? UINT64_MAX : ((1ULL << ((W) & 63)) - 1);                                      \
        uint64_t vv_[3] = {mask_, 0x5555555555555555ULL & mask_, 1};                                               \
        for (int bg = 0; bg < 4; bg++) {                                                                           \
            for (int vi = 0; vi < 3; vi++) {                                                                       \
                memset(BUF, bgs[bg], sizeof BUF);                                                                  \
                memset(MOD, bgs[bg], sizeof MOD);                                                                  \
                uint8_t *st = BUF + PADW * 8, *mo = MOD + PADW * 8;                                                \
                varintBitstreamSet((vbits *)st, off, (W), (vbitsVal)vv_[vi]);                                      \
                uint64_t got_ = varintBitstreamGet((const vbits *)st, off, (W));                                   \
                model_set(mo, 64, off, (W), vv_[vi]);                                                              \
                /* the same field read with a run-time width: both readers must agree with the model */            \
                uint64_t got2_ = bs64_get(st, off, wvar);                                                          \
                if (memcmp(BUF, MOD, sizeof BUF) || got_ != vv_[vi] || got2_ != vv_[vi]) {                         \
                    vh_fail("bitstream.Set", memcmp(BUF, MOD, sizeof BUF) ? "bits_outside_range_changed" : "wrong_value", "untagged",                           \
                            "u64 words, width written as the literal %d: offset %zu value 0x%" PRIx64 " prior %02x: literal-width Get 0x%" PRIx64 ", run-time-width Get 0x%" PRIx64 ", stream %s the model", (W), off, vv_[vi], bgs[bg], got_, \
                            got2_, memcmp(BUF, MOD, sizeof BUF) ? "differs from" : "equals");                      \
                }                                                                                                  \
                vh_count("calls", 3);                                                                              \
            }                                                                                                      \
        }                                                                                                          \
    }
static void literal_widths(void) {
    if (!vh_section_begin("literal-widths")) {
        return;
    }
    static const uint8_t bgs[4] = {0x00, 0xff, 0x55, 0xaa};
#define LITW(W)                                                                                                    \
    if (vh_case()) {                                                                                               \
        volatile size_t wv_ = (W);                                                                                 \
        size_t wvar = wv_;                                                                                         \
        LITW_ONE(W)                                                                                                \
        vh_count("cases", 1);                                                                                      \
    }
    LITW(1) LITW(2) LITW(3) LITW(4) LITW(5) LITW(6) LITW(7) LITW(8) LITW(9) LITW(10) LITW(11) LITW(12) LITW(13) LITW(14) LITW(15) LITW(16)
    LITW(17) LITW(18) LITW(19) LITW(20) LITW(21) LITW(22) LITW(23) LITW(24) LITW(25) LITW(26) LITW(27) LITW(28) LITW(29) LITW(30) LITW(31) LITW(32)
    LITW(33) LITW(34) LITW(35) LITW(36) LITW(37) LITW(38) LITW(39) LITW(40) LITW(41) LITW(42) LITW(43) LITW(44) LITW(45) LITW(46) LITW(47) LITW(48)
    LITW(49) LITW(50) LITW(51) LITW(52) LITW(53) LITW(54) LITW(55) LITW(56) LITW(57) LITW(58) LITW(59) LITW(60) LITW(61) LITW(62) LITW(63) LITW(64)
#undef LITW
    vh_class("literal-widths/u64", "64 literal widths x 192 offsets x 3 values x 4 priors");
}

#ifndef NO_HYGIENE
#define HYG_BITSTREAM 1
#include "hygiene.h"
#include "hygiene_gen.h"
#endif

int main(int argc, char **argv) {
    vh_init(argc, argv);
    vh_sandbox_init();
    vh_watchdog(60); /* a library call that makes no progress for a whole period is reported as a hang */
    vh_gb_init(0, 1 << 12);
    static uint64_t vals[70000];
    static const uint8_t bgs[4] = {0x00, 0xff, 0x55, 0xaa};
    for (int ii = 0; ii < 2; ii++) {
        const binst *I = &INST[ii];
        int W = I->W, WB = W / 8;
        char sec[32];
        snprintf(sec, sizeof sec, "setget/%s", I->name);
        if (!vh_section_begin(sec)) {
            continue;
        }
        for (size_t off = 0; off < (size_t)(3 * W); off++) {
            for (size_t w = 1; w <= (size_t)W; w++) {
                if (!vh_case()) {
                    continue;
                }
                size_t nv = value_alphabet(w, vals);
                size_t firstw = off / (size_t)W, lastw = (off + w - 1) / (size_t)W;
                if (lastw >= WORDS) {
                    continue;
                }
                for (int bg = 0; bg < 4; bg++) {
                    for (size_t vi = 0; vi < nv; vi++) {
                        uint64_t v = vals[vi];
                        memset(BUF, bgs[bg], sizeof BUF);
                        memset(MOD, bgs[bg], sizeof MOD);
                        uint8_t *st = BUF + PADW * 8, *mo = MOD + PADW * 8;
                        snprintf(desc, sizeof desc, "%s words: offset %zu width %zu value 0x%" PRIx64 " prior %02x", I->name, off, w, v, bgs[bg]);
                        uint64_t got = 0;
                        if (SB_ENTER()) {
                            I->set(st, off, w, v);
                            got = I->get(st, off, w);
                            SB_LEAVE();
                        } else {
                            vh_fail("bitstream.Set", vh_fault_name(), "untagged", "%s: %s", desc, vh_fault_msg);
                            continue;
                        }
                        model_set(mo, W, off, w, v);
                        vh_count("calls", 2);
                        if (memcmp(BUF, MOD, sizeof BUF)) {
                            size_t at = 0;
                            while (BUF[at] == MOD[at]) {
                                at++;
                            }
                            vh_fail("bitstream.Set", "bits_outside_range_changed", "untagged", "%s: stream byte %ld is %02x, model %02x", desc, (long)at - PADW * 8, BUF[at], MOD[at]);
                        }
                        if (got != v) {
                            vh_fail("bitstream.Get", "wrong_value", "untagged", "%s: Get returned 0x%" PRIx64, desc, got);
                        }
                        /* a read of the neighbouring fields is unaffected: read w bits before and after when they exist */
                        /* guard runs: only the words overlapping the range may be touched */
                        if (bg == 0 && (vi < 3 || vi + 1 == nv)) {
                            for (int side = 0; side < 2; side++) {
                                uint8_t *base;
                                if (side == 0) {
                                    base = vh_gb_get(0, (lastw + 1) * (size_t)WB, 0x00);
                                } else {
                                    uint8_t *g = vh_gb_get_lo(0, (WORDS - firstw) * (size_t)WB, 0x00);
                                    base = g - firstw * (size_t)WB;
                                }
                                uint64_t g2 = ~v;
                                if (SB_ENTER()) {
                                    I->set(base, off, w, v);
                                    g2 = I->get(base, off, w);
                                    SB_LEAVE();
                                    if (g2 != v) {
                                        vh_fail("bitstream.Get", "wrong_value", "untagged", "%s (guarded): Get returned 0x%" PRIx64, desc, g2);
                                    }
                                } else {
                                    vh_fail("bitstream.Set/Get", "touches_foreign_word", "untagged", "%s: range overlaps words %zu..%zu but the %s word was accessed", desc, firstw, lastw, side == 0 ? "following" : "preceding");
                                }
                                vh_count("calls", 2);
                            }
                        }
                        vh_count("cases", 1);
                    }
                }
                char ck[64];
                snprintf(ck, sizeof ck, "%s/off%%W=%zu/%s", I->name, off % (size_t)W, firstw == lastw ? "one-word" : "two-words");
                vh_class(ck, "offset %zu width %zu", off, w);
            }
        }
    }
    far_section();
    literal_widths();
#ifndef NO_HYGIENE
    if (vh_section_begin("macro_hygiene") && vh_case()) {
        hygiene_bitstream();
        vh_count("cases", 1);
    }
#endif
    /* signed helpers */
    if (vh_section_begin("signed")) {
        for (size_t w = 2; w <= 64; w++) {
            if (!vh_case()) {
                continue;
            }
            uint64_t lim = 1ULL << (w - 1); /* |v| < 2^(w-1) */
            size_t nv = value_alphabet(w - 1 ? w - 1 : 1, vals);
            uint64_t exh = w <= 17 ? lim : 0;
            for (size_t k = 0; k < nv + exh; k++) {
                uint64_t m = k < nv ? vals[k] : (uint64_t)(k - nv);
                if (m >= lim) {
                    continue;
                }
                for (int neg = 0; neg < 2; neg++) {
                    if (neg && m == 0) {
                        continue;
                    }
                    int64_t v = neg ? -(int64_t)m : (int64_t)m;
                    int64_t x = v;
                    if (x < 0) {
                        _varintBitstreamPrepareSigned(x, w);
                    }
                    uint64_t stored = (uint64_t)x;
                    int fits = w == 64 || (stored >> w) == 0;
                    /* store through the 64-bit stream and read back */
                    uint64_t words[3] = {0, 0, 0};
                    if (fits) {
                        bs64_set(words, 5, w, stored);
                        stored = bs64_get(words, 5, w);
                    }
                    int64_t y = (int64_t)stored;
                    _varintBitstreamRestoreSigned(y, w);
                    if (!fits || y != v) {
                        vh_fail("bitstream.signed", "roundtrip_mismatch", "untagged", "width %zu value %" PRId64 ": prepared 0x%" PRIx64 " restored %" PRId64, w, v, (uint64_t)x, y);
                    }
                    vh_count("calls", 4);
                    vh_count("cases", 1);
                }
            }
            char ck[32];
            snprintf(ck, sizeof ck, "signed/w%zu", w);
            vh_class(ck, "width %zu", w);
        }
    }
    /* signed helpers applied to operands narrower than 64 bits (int8_t / int16_t / int32_t variables, widths up to
     * the operand's own size: the sign test then sees a promoted / sign-extended operand) and to an unsigned 64-bit
     * operand. Stored through the 32-bit stream where the width allows it, else the 64-bit one. */
    if (vh_section_begin("signed_narrow")) {
#define SIGNED_NARROW(T, BITS, TAG)                                                                                  \
    for (size_t w = 2; w <= (BITS); w++) {                                                                           \
        if (!vh_case()) {                                                                                            \
            continue;                                                                                                \
        }                                                                                                            \
        uint64_t lim = 1ULL << (w - 1);                                                                              \
        size_t nv = value_alphabet(w - 1, vals);                                                                     \
        uint64_t exh = w <= 17 ? lim : 0;                                                                            \
        for (size_t k = 0; k < nv + exh; k++) {                                                                      \
            uint64_t m = k < nv ? vals[k] : (uint64_t)(k - nv);                                                      \
            if (m >= lim) {                                                                                          \
                continue;                                                                                            \
            }                                                                                                        \
            for (int neg = 0; neg < 2; neg++) {                                                                      \
                if (neg && m == 0) {                                                                                 \
                    continue;                                                                                        \
                }                                                                                                    \
                int64_t v = neg ? -(int64_t)m : (int64_t)m;                                                          \
                T x = (T)v;                                                                                          \
                if (v < 0) {                                                                                         \
                    _varintBitstreamPrepareSigned(x, w);                                                             \
                }                                                                                                    \
                uint64_t stored = (uint64_t)x & (w == 64 ? ~0ULL : ((1ULL << w) - 1));                               \
                uint64_t words[3] = {~0ULL, 0, ~0ULL};                                                               \
                if (w <= 32) {                                                                                       \
                    bs32_set(words, 7, w, stored);                                                                   \
                    stored = bs32_get(words, 7, w);                                                                  \
                } else {                                                                                             \
                    bs64_set(words, 7, w, stored);                                                                   \
                    stored = bs64_get(words, 7, w);                                                                  \
                }                                                                                                    \
                T y = (T)stored;                                                                                     \
                _varintBitstreamRestoreSigned(y, w);                                                                 \
                if ((int64_t)y != v) {                                                                               \
                    vh_fail("bitstream.signed", "roundtrip_mismatch", "untagged",                                    \
                            "%s operand, width %zu value %" PRId64 ": stored 0x%" PRIx64 " restored %" PRId64, TAG, \
                            w, v, stored, (int64_t)y);                                                               \
                }                                                                                                    \
                vh_count("calls", 4);                                                                                \
                vh_count("cases", 1);                                                                                \
            }                                                                                                        \
        }                                                                                                            \
        char ck[48];                                                                                                 \
        snprintf(ck, sizeof ck, "signed/%s/w%zu", TAG, w);                                                           \
        vh_class(ck, "%s operand width %zu", TAG, w);                                                                \
    }
        SIGNED_NARROW(int8_t, 8, "int8_t")
        SIGNED_NARROW(int16_t, 16, "int16_t")
        SIGNED_NARROW(int32_t, 32, "int32_t")
        SIGNED_NARROW(uint64_t, 64, "uint64_t")
#undef SIGNED_NARROW
    }
    vh_write_out();
    return 0;
}
