/* bitstream.c - C11: bitstream writes are exact and isolated (E-enum).
 * Instances: default uint64_t/uint64_t and uint32_t/uint32_t words.
 * Space: bit offset in [0, 3W) x width 1..W x value alphabet x prior contents.
 * Oracle: stream + guard words == bit-array model (values written most-significant-first, in order);
 * Get == value; second/third run with PROT_NONE pages right after the last / before the first word
 * overlapping the range. Signed helpers: every representable sign-magnitude value of the alphabet. */
#include "vh.h"

#include "varintBitstream.h" /* default instance: 64-bit words */

void bs32_set(void *dst, size_t off, size_t w, uint64_t v);
uint64_t bs32_get(const void *src, size_t off, size_t w);
static void bs64_set(void *dst, size_t off, size_t w, uint64_t v) { varintBitstreamSet((vbits *)dst, off, w, (vbitsVal)v); }
static uint64_t bs64_get(const void *src, size_t off, size_t w) { return varintBitstreamGet((const vbits *)src, off, w); }

typedef struct {
    const char *name;
    int W;
    void (*set)(void *, size_t, size_t, uint64_t);
    uint64_t (*get)(const void *, size_t, size_t);
} binst;
static const binst INST[2] = {{"u64", 64, bs64_set, bs64_get}, {"u32", 32, bs32_set, bs32_get}};

/* model: bit p of the stream is bit (W-1 - p%W) of word p/W; words are native (little-endian) integers */
static void model_set(uint8_t *m, int W, size_t off, size_t w, uint64_t v) {
    for (size_t i = 0; i < w; i++) {
        size_t p = off + i;
        size_t word = p / (size_t)W, bitinword = (size_t)W - 1 - p % (size_t)W;
        size_t byte = word * (size_t)(W / 8) + bitinword / 8, bit = bitinword % 8;
        uint64_t b = (v >> (w - 1 - i)) & 1;
        m[byte] = (uint8_t)((m[byte] & ~(1u << bit)) | (b << bit));
    }
}

#define WORDS 5
#define PADW 2
static uint8_t BUF[(WORDS + 2 * PADW) * 8], MOD[(WORDS + 2 * PADW) * 8];

static size_t value_alphabet(size_t w, uint64_t *vals) {
    uint64_t mask = w == 64 ? UINT64_MAX : ((1ULL << w) - 1);
    size_t k = 0;
    if (w <= (vh_thorough ? 16u : 11u)) {
        for (uint64_t v = 0; v <= mask; v++) {
            vals[k++] = v;
        }
        return k;
    }
    vals[k++] = 0;
    vals[k++] = 1;
    vals[k++] = mask;
    vals[k++] = mask - 1;
    vals[k++] = 1ULL << (w - 1);
    vals[k++] = 0x5555555555555555ULL & mask;
    vals[k++] = 0xAAAAAAAAAAAAAAAAULL & mask;
    for (size_t b = 0; b < w; b++) {
        vals[k++] = 1ULL << b;
    }
    return k;
}

static char desc[256];

int main(int argc, char **argv) {
    vh_init(argc, argv);
    vh_sandbox_init();
    vh_gb_init(0, 1 << 12);
    static uint64_t vals[70000];
    static const uint8_t bgs[4] = {0x00, 0xff, 0x55, 0xaa};
    for (int ii = 0; ii < 2; ii++) {
        const binst *I = &INST[ii];
        int W = I->W, WB = W / 8;
        char sec[32];
        snprintf(sec, sizeof sec, "setget/%s", I->name);
        if (!vh_section_begin(sec)) {
            continue;
        }
        for (size_t off = 0; off < (size_t)(3 * W); off++) {
            for (size_t w = 1; w <= (size_t)W; w++) {
                if (!vh_case()) {
                    continue;
                }
                size_t nv = value_alphabet(w, vals);
                size_t firstw = off / (size_t)W, lastw = (off + w - 1) / (size_t)W;
                if (lastw >= WORDS) {
                    continue;
                }
                for (int bg = 0; bg < 4; bg++) {
                    for (size_t vi = 0; vi < nv; vi++) {
                        uint64_t v = vals[vi];
                        memset(BUF, bgs[bg], sizeof BUF);
                        memset(MOD, bgs[bg], sizeof MOD);
                        uint8_t *st = BUF + PADW * 8, *mo = MOD + PADW * 8;
                        snprintf(desc, sizeof desc, "%s words: offset %zu width %zu value 0x%" PRIx64 " prior %02x", I->name, off, w, v, bgs[bg]);
                        uint64_t got = 0;
                        if (SB_ENTER()) {
                            I->set(st, off, w, v);
                            got = I->get(st, off, w);
                            SB_LEAVE();
                        } else {
                            vh_fail("bitstream.Set", vh_fault_name(), "untagged", "%s: %s", desc, vh_fault_msg);
                            continue;
                        }
                        model_set(mo, W, off, w, v);
                        vh_count("calls", 2);
                        if (memcmp(BUF, MOD, sizeof BUF)) {
                            size_t at = 0;
                            while (BUF[at] == MOD[at]) {
                                at++;
                            }
                            vh_fail("bitstream.Set", "bits_outside_range_changed", "untagged", "%s: stream byte %ld is %02x, model %02x", desc, (long)at - PADW * 8, BUF[at], MOD[at]);
                        }
                        if (got != v) {
                            vh_fail("bitstream.Get", "wrong_value", "untagged", "%s: Get returned 0x%" PRIx64, desc, got);
                        }
                        /* a read of the neighbouring fields is unaffected: read w bits before and after when they exist */
                        /* guard runs: only the words overlapping the range may be touched */
                        if (bg == 0 && (vi < 3 || vi + 1 == nv)) {
                            for (int side = 0; side < 2; side++) {
                                uint8_t *base;
                                if (side == 0) {
                                    base = vh_gb_get(0, (lastw + 1) * (size_t)WB, 0x00);
                                } else {
                                    uint8_t *g = vh_gb_get_lo(0, (WORDS - firstw) * (size_t)WB, 0x00);
                                    base = g - firstw * (size_t)WB;
                                }
                                uint64_t g2 = ~v;
                                if (SB_ENTER()) {
                                    I->set(base, off, w, v);
                                    g2 = I->get(base, off, w);
                                    SB_LEAVE();
                                    if (g2 != v) {
                                        vh_fail("bitstream.Get", "wrong_value", "untagged", "%s (guarded): Get returned 0x%" PRIx64, desc, g2);
                                    }
                                } else {
                                    vh_fail("bitstream.Set/Get", "touches_foreign_word", "untagged", "%s: range overlaps words %zu..%zu but the %s word was accessed", desc, firstw, lastw, side == 0 ? "following" : "preceding");
                                }
                                vh_count("calls", 2);
                            }
                        }
                        vh_count("cases", 1);
                    }
                }
                char ck[64];
                snprintf(ck, sizeof ck, "%s/off%%W=%zu/%s", I->name, off % (size_t)W, firstw == lastw ? "one-word" : "two-words");
                vh_class(ck, "offset %zu width %zu", off, w);
            }
        }
    }
    /* signed helpers */
    if (vh_section_begin("signed")) {
        for (size_t w = 2; w <= 64; w++) {
            if (!vh_case()) {
                continue;
            }
            uint64_t lim = 1ULL << (w - 1); /* |v| < 2^(w-1) */
            size_t nv = value_alphabet(w - 1 ? w - 1 : 1, vals);
            uint64_t exh = w <= 17 ? lim : 0;
            for (size_t k = 0; k < nv + exh; k++) {
                uint64_t m = k < nv ? vals[k] : (uint64_t)(k - nv);
                if (m >= lim) {
                    continue;
                }
                for (int neg = 0; neg < 2; neg++) {
                    if (neg && m == 0) {
                        continue;
                    }
                    int64_t v = neg ? -(int64_t)m : (int64_t)m;
                    int64_t x = v;
                    if (x < 0) {
                        _varintBitstreamPrepareSigned(x, w);
                    }
                    uint64_t stored = (uint64_t)x;
                    int fits = w == 64 || (stored >> w) == 0;
                    /* store through the 64-bit stream and read back */
                    uint64_t words[3] = {0, 0, 0};
                    if (fits) {
                        bs64_set(words, 5, w, stored);
                        stored = bs64_get(words, 5, w);
                    }
                    int64_t y = (int64_t)stored;
                    _varintBitstreamRestoreSigned(y, w);
                    if (!fits || y != v) {
                        vh_fail("bitstream.signed", "roundtrip_mismatch", "untagged", "width %zu value %" PRId64 ": prepared 0x%" PRIx64 " restored %" PRId64, w, v, (uint64_t)x, y);
                    }
                    vh_count("calls", 4);
                    vh_count("cases", 1);
                }
            }
            char ck[32];
            snprintf(ck, sizeof ck, "signed/w%zu", w);
            vh_class(ck, "width %zu", w);
        }
    }
    vh_write_out();
    return 0;
}
