/* bitmap_bfs.c - E-bfs: explicit-state breadth-first search over operation histories of the
 * Roaring-style bitmap (C08). Every transition is a call into the real library on real objects;
 * every reached state is compared with a 65536-bit reference set through all public observers.
 *
 * State = two registers A, B (real bitmaps) + two reference sets. Snapshots are taken by a
 * harness-side deep copy that uses only the public struct layout (the library's own clone is an
 * operation under test); when a frontier state is expanded its history is replayed from the empty
 * state on fresh objects and must reach the same canonical key (replay-determinism assertion).
 *
 * Sharding: shard i explores the subtrees whose first operation index is congruent to i; dedup is
 * per shard (sound, possibly redundant across shards).
 */
#include "vh.h"

#include "varintBitmap.h"

#define U 65536
typedef struct {
    uint64_t w[U / 64];
} bitset;
static inline int bs_get(const bitset *b, uint32_t x) { return (b->w[x >> 6] >> (x & 63)) & 1; }
static inline void bs_set(bitset *b, uint32_t x) { b->w[x >> 6] |= 1ULL << (x & 63); }
static inline void bs_clr(bitset *b, uint32_t x) { b->w[x >> 6] &= ~(1ULL << (x & 63)); }
static uint32_t bs_card(const bitset *b) {
    uint32_t c = 0;
    for (int i = 0; i < U / 64; i++) {
        c += (uint32_t)__builtin_popcountll(b->w[i]);
    }
    return c;
}
static uint64_t bs_hash(const bitset *b) {
    uint64_t h = 0x9e3779b97f4a7c15ULL;
    for (int i = 0; i < U / 64; i++) {
        if (b->w[i]) {
            h ^= b->w[i] + 0x9e3779b97f4a7c15ULL * (uint64_t)(i + 1);
            h = (h << 13 | h >> 51) * 0xff51afd7ed558ccdULL;
        }
    }
    return h;
}

typedef struct {
    varintBitmap *A, *B;
    bitset mA, mB;
} state;

/* ---------------------------------------------------------------- operation alphabet */
enum { O_ADD, O_REMOVE, O_ADDRANGE, O_REMRANGE, O_ADDMANY, O_CLEAR, O_CLONE, O_COPY_A_TO_B, O_SWAP, O_AND, O_OR, O_XOR, O_ANDNOT, O_AND_R, O_OR_R, O_XOR_R, O_ANDNOT_R, O_CODEC };
typedef struct {
    int kind;
    uint32_t a, b;
    char name[40];
} op;
static op OPS[128];
static int NOPS = 0;

static uint16_t MANY[3][5200];
static uint32_t MANYN[3];

static void add_op(int kind, uint32_t a, uint32_t b, const char *fmt) {
    OPS[NOPS].kind = kind;
    OPS[NOPS].a = a;
    OPS[NOPS].b = b;
    snprintf(OPS[NOPS].name, sizeof OPS[NOPS].name, fmt, a, b);
    NOPS++;
}

static void build_alphabet(int small, int reduced) {
    NOPS = 0;
    if (small) {
        for (uint32_t x = 0; x < 6; x++) {
            add_op(O_ADD, x, 0, "add(%u)");
            add_op(O_REMOVE, x, 0, "remove(%u)");
        }
        static const uint32_t R[][2] = {{0, 3}, {2, 6}, {1, 2}, {4, 4}, {5, 1}};
        for (size_t i = 0; i < sizeof R / sizeof *R; i++) {
            add_op(O_ADDRANGE, R[i][0], R[i][1], "addRange(%u,%u)");
            add_op(O_REMRANGE, R[i][0], R[i][1], "removeRange(%u,%u)");
        }
        MANYN[0] = 4;
        MANY[0][0] = 5;
        MANY[0][1] = 1;
        MANY[0][2] = 5;
        MANY[0][3] = 3;
        add_op(O_ADDMANY, 0, 0, "addMany#%u");
    } else {
        static const uint32_t X[] = {0, 1, 2, 4094, 4095, 4096, 4097, 5000, 65534, 65535};
        static const uint32_t XR[] = {0, 4095, 4096, 65535};
        const uint32_t *xs = reduced ? XR : X;
        size_t nx = reduced ? 4 : 10;
        for (size_t i = 0; i < nx; i++) {
            add_op(O_ADD, xs[i], 0, "add(%u)");
            add_op(O_REMOVE, xs[i], 0, "remove(%u)");
        }
        static const uint32_t R[][2] = {{0, 4095}, {0, 4096}, {0, 4097}, {10, 5000}, {4000, 4200}, {4096, 8193}, {60000, 65535}, {0, 65535}, {5, 5}, {7, 3}, {1, 65535}, {2, 65535}};
        static const uint32_t RR[][2] = {{0, 4096}, {0, 4097}, {10, 5000}, {4000, 4200}, {0, 65535}};
        size_t nr = reduced ? 5 : 12;
        for (size_t i = 0; i < nr; i++) {
            uint32_t lo = reduced ? RR[i][0] : R[i][0], hi = reduced ? RR[i][1] : R[i][1];
            add_op(O_ADDRANGE, lo, hi, "addRange(%u,%u)");
            add_op(O_REMRANGE, lo, hi, "removeRange(%u,%u)");
        }
        /* bulk lists: small with duplicates, descending, 5000 elements */
        MANYN[0] = 6;
        static const uint16_t m0[6] = {9, 3, 9, 65535, 0, 3};
        memcpy(MANY[0], m0, sizeof m0);
        MANYN[1] = 40;
        for (uint32_t i = 0; i < 40; i++) {
            MANY[1][i] = (uint16_t)(4120 - i);
        }
        MANYN[2] = 5000;
        for (uint32_t i = 0; i < 5000; i++) {
            MANY[2][i] = (uint16_t)(i * 13);
        }
        add_op(O_ADDMANY, 0, 0, "addMany#%u");
        if (!reduced) {
            add_op(O_ADDMANY, 1, 0, "addMany#%u");
        }
        add_op(O_ADDMANY, 2, 0, "addMany#%u");
    }
    add_op(O_CLEAR, 0, 0, "clear");
    add_op(O_CLONE, 0, 0, "A:=clone(A)");
    add_op(O_COPY_A_TO_B, 0, 0, "B:=A");
    add_op(O_SWAP, 0, 0, "swap(A,B)");
    add_op(O_AND, 0, 0, "A:=and(A,B)");
    add_op(O_OR, 0, 0, "A:=or(A,B)");
    add_op(O_XOR, 0, 0, "A:=xor(A,B)");
    add_op(O_ANDNOT, 0, 0, "A:=andnot(A,B)");
    add_op(O_AND_R, 0, 0, "A:=and(B,A)");
    add_op(O_OR_R, 0, 0, "A:=or(B,A)");
    add_op(O_XOR_R, 0, 0, "A:=xor(B,A)");
    add_op(O_ANDNOT_R, 0, 0, "A:=andnot(B,A)");
    add_op(O_CODEC, 0, 0, "A:=decode(encode(A))");
}

/* ---------------------------------------------------------------- harness-side deep copy */
static varintBitmap *deep_copy(const varintBitmap *s) {
    varintBitmap *d = malloc(sizeof *d);
    *d = *s;
    switch (s->type) {
    case VARINT_BITMAP_ARRAY: {
        size_t cap = s->container.array.capacity;
        d->container.array.values = malloc((cap ? cap : 1) * sizeof(uint16_t));
        if (s->container.array.values && s->cardinality) {
            memcpy(d->container.array.values, s->container.array.values, (size_t)s->cardinality * sizeof(uint16_t));
        }
        break;
    }
    case VARINT_BITMAP_BITMAP:
        d->container.bitmap.bits = malloc(VARINT_BITMAP_BITMAP_SIZE);
        memcpy(d->container.bitmap.bits, s->container.bitmap.bits, VARINT_BITMAP_BITMAP_SIZE);
        break;
    case VARINT_BITMAP_RUNS: {
        size_t cap = s->container.runs.capacity;
        d->container.runs.runs = malloc((cap ? cap : 1) * 2 * sizeof(uint16_t));
        memcpy(d->container.runs.runs, s->container.runs.runs, (size_t)s->container.runs.numRuns * 2 * sizeof(uint16_t));
        break;
    }
    }
    return d;
}
static void state_free(state *s) {
    if (s->A) {
        varintBitmapFree(s->A);
    }
    if (s->B) {
        varintBitmapFree(s->B);
    }
    s->A = s->B = NULL;
}
static void state_copy(state *d, const state *s) {
    d->A = deep_copy(s->A);
    d->B = deep_copy(s->B);
    d->mA = s->mA;
    d->mB = s->mB;
}
static void state_init(state *s) {
    s->A = varintBitmapCreate();
    s->B = varintBitmapCreate();
    memset(&s->mA, 0, sizeof s->mA);
    memset(&s->mB, 0, sizeof s->mB);
}

/* ---------------------------------------------------------------- oracle */
static char cur_hist[256];
static const char *TYPEN[3] = {"array", "bitmap", "runs"};
static int trans_seen[3][3];

static uint32_t PROBES[96];
static int NPROBES = 0;
static void build_probes(void) {
    NPROBES = 0;
    for (int i = 0; i < NOPS; i++) {
        uint32_t c[6] = {OPS[i].a, OPS[i].a + 1, OPS[i].a ? OPS[i].a - 1 : 0, OPS[i].b, OPS[i].b + 1, OPS[i].b ? OPS[i].b - 1 : 0};
        for (int k = 0; k < 6; k++) {
            uint32_t x = c[k] & 0xffff;
            int dup = 0;
            for (int j = 0; j < NPROBES; j++) {
                dup |= PROBES[j] == x;
            }
            if (!dup && NPROBES < 90) {
                PROBES[NPROBES++] = x;
            }
        }
    }
    PROBES[NPROBES++] = 4120;
    PROBES[NPROBES++] = 13;
    PROBES[NPROBES++] = 26;
    PROBES[NPROBES++] = 64987;
}

#define BFAIL(kind, ...) vh_fail(api, (kind), "untagged", __VA_ARGS__)

/* compare every observer of bitmap vb with model m */
static uint16_t itbuf[U + 8], tabuf[U + 8];
static void check_observers(const char *api, const char *reg, const varintBitmap *vb, const bitset *m) {
    uint32_t card = bs_card(m);
    uint32_t c = varintBitmapCardinality(vb);
    if (c != card) {
        BFAIL("model_divergence", "%s: after %s: cardinality(%s)=%u model=%u", cur_hist, api, reg, c, card);
    }
    if (varintBitmapIsEmpty(vb) != (card == 0)) {
        BFAIL("model_divergence", "%s: after %s: isEmpty(%s)=%d model card=%u", cur_hist, api, reg, (int)varintBitmapIsEmpty(vb), card);
    }
    for (int i = 0; i < NPROBES; i++) {
        int got = varintBitmapContains(vb, (uint16_t)PROBES[i]);
        if (got != bs_get(m, PROBES[i])) {
            BFAIL("model_divergence", "%s: after %s: contains(%s,%u)=%d model=%d", cur_hist, api, reg, PROBES[i], got, bs_get(m, PROBES[i]));
            break;
        }
    }
    {
        varintBitmapStats st;
        memset(&st, 0, sizeof st);
        varintBitmapGetStats(vb, &st);
        if (st.cardinality != card || st.sizeBytes != varintBitmapSizeBytes(vb) || st.sizeBytes < sizeof(varintBitmap)) {
            BFAIL("model_divergence", "%s: after %s: GetStats(%s) cardinality %u model %u, sizeBytes %zu", cur_hist, api, reg, st.cardinality, card, st.sizeBytes);
        }
    }
    /* iterator: ascending, duplicate free, exactly the model */
    varintBitmapIterator it = varintBitmapCreateIterator(vb);
    uint32_t n = 0;
    int bad = 0;
    while (varintBitmapIteratorNext(&it)) {
        if (n >= U) {
            bad = 1;
            break;
        }
        itbuf[n++] = it.currentValue;
    }
    if (bad) {
        BFAIL("model_divergence", "%s: after %s: iterator(%s) yields more than 65536 values", cur_hist, api, reg);
    } else {
        uint32_t k = 0;
        int ok = n == card;
        for (uint32_t x = 0; x < U && ok; x++) {
            if (bs_get(m, x)) {
                if (k >= n || itbuf[k] != x) {
                    ok = 0;
                }
                k++;
            }
        }
        if (!ok) {
            BFAIL("model_divergence", "%s: after %s: iteration of %s yields %u values (model %u); first values %u %u %u", cur_hist, api, reg, n, card, n > 0 ? itbuf[0] : 0, n > 1 ? itbuf[1] : 0, n > 2 ? itbuf[2] : 0);
        }
        /* toArray (only when it cannot overflow our buffer: count known from the iterator) */
        uint32_t tn = varintBitmapToArray(vb, tabuf);
        if (tn != n || memcmp(tabuf, itbuf, (size_t)n * 2)) {
            BFAIL("model_divergence", "%s: after %s: toArray(%s) returned %u values, iterator %u", cur_hist, api, reg, tn, n);
        }
    }
    vh_count("transitions", 0);
}

static uint8_t encbuf[1 << 18];

static void model_range(bitset *m, uint32_t lo, uint32_t hi, int set) {
    for (uint32_t x = lo; x < hi; x++) {
        if (set) {
            bs_set(m, x);
        } else {
            bs_clr(m, x);
        }
    }
}

/* apply op o to state s (library + model) and check every observer */
static void apply(state *s, int oi, int check) {
    const op *o = &OPS[oi];
    static const char *KIND[] = {"bitmap.Add", "bitmap.Remove", "bitmap.AddRange", "bitmap.RemoveRange", "bitmap.AddMany", "bitmap.Clear", "bitmap.Clone", "bitmap.Clone", "swap", "bitmap.And", "bitmap.Or", "bitmap.Xor", "bitmap.AndNot", "bitmap.And", "bitmap.Or", "bitmap.Xor", "bitmap.AndNot", "bitmap.Encode/Decode"};
    const char *api = KIND[o->kind];
    char histop[320];
    snprintf(histop, sizeof histop, "%s%s%s", cur_hist, cur_hist[0] ? "; " : "", o->name);
    char savehist[256];
    memcpy(savehist, cur_hist, sizeof savehist);
    snprintf(cur_hist, sizeof cur_hist, "[%.240s]", histop);
    int t0 = (int)s->A->type;
    bitset beforeA = s->mA, beforeB = s->mB;
    switch (o->kind) {
    case O_ADD: {
        int want = !bs_get(&s->mA, o->a);
        int got = varintBitmapAdd(s->A, (uint16_t)o->a);
        bs_set(&s->mA, o->a);
        if (check && got != want) {
            BFAIL("wrong_change_report", "%s: %s returned %d, set %s the element", cur_hist, api, got, want ? "did not contain" : "already contained");
        }
        break;
    }
    case O_REMOVE: {
        int want = bs_get(&s->mA, o->a);
        int got = varintBitmapRemove(s->A, (uint16_t)o->a);
        bs_clr(&s->mA, o->a);
        if (check && got != want) {
            BFAIL("wrong_change_report", "%s: %s returned %d, element was %s", cur_hist, api, got, want ? "present" : "absent");
        }
        break;
    }
    case O_ADDRANGE:
        varintBitmapAddRange(s->A, (uint16_t)o->a, (uint16_t)o->b);
        model_range(&s->mA, o->a, o->b, 1);
        break;
    case O_REMRANGE:
        varintBitmapRemoveRange(s->A, (uint16_t)o->a, (uint16_t)o->b);
        model_range(&s->mA, o->a, o->b, 0);
        break;
    case O_ADDMANY:
        varintBitmapAddMany(s->A, MANY[o->a], MANYN[o->a]);
        for (uint32_t i = 0; i < MANYN[o->a]; i++) {
            bs_set(&s->mA, MANY[o->a][i]);
        }
        break;
    case O_CLEAR:
        varintBitmapClear(s->A);
        memset(&s->mA, 0, sizeof s->mA);
        break;
    case O_CLONE: {
        varintBitmap *c = varintBitmapClone(s->A);
        if (!c) {
            BFAIL("model_divergence", "%s: clone returned NULL", cur_hist);
            break;
        }
        if (check) {
            check_observers(api, "source", s->A, &s->mA);
        }
        varintBitmapFree(s->A);
        s->A = c;
        break;
    }
    case O_COPY_A_TO_B: {
        varintBitmap *c = varintBitmapClone(s->A);
        if (!c) {
            BFAIL("model_divergence", "%s: clone returned NULL", cur_hist);
            break;
        }
        varintBitmapFree(s->B);
        s->B = c;
        s->mB = s->mA;
        break;
    }
    case O_SWAP: {
        varintBitmap *t = s->A;
        s->A = s->B;
        s->B = t;
        bitset tm = s->mA;
        s->mA = s->mB;
        s->mB = tm;
        break;
    }
    case O_AND:
    case O_OR:
    case O_XOR:
    case O_ANDNOT:
    case O_AND_R:
    case O_OR_R:
    case O_XOR_R:
    case O_ANDNOT_R: {
        int rev = o->kind >= O_AND_R;
        int k = rev ? o->kind - O_AND_R : o->kind - O_AND;
        const varintBitmap *x = rev ? s->B : s->A, *y = rev ? s->A : s->B;
        const bitset *mx = rev ? &s->mB : &s->mA, *my = rev ? &s->mA : &s->mB;
        varintBitmap *r = k == 0 ? varintBitmapAnd(x, y) : k == 1 ? varintBitmapOr(x, y) : k == 2 ? varintBitmapXor(x, y) : varintBitmapAndNot(x, y);
        bitset mr;
        for (int i = 0; i < U / 64; i++) {
            mr.w[i] = k == 0 ? (mx->w[i] & my->w[i]) : k == 1 ? (mx->w[i] | my->w[i]) : k == 2 ? (mx->w[i] ^ my->w[i]) : (mx->w[i] & ~my->w[i]);
        }
        if (!r) {
            BFAIL("model_divergence", "%s: %s returned NULL", cur_hist, api);
            break;
        }
        if (check) {
            /* operands unchanged */
            check_observers(api, "operand A", s->A, &beforeA);
            check_observers(api, "operand B", s->B, &beforeB);
        }
        varintBitmapFree(s->A);
        s->A = r;
        s->mA = mr;
        break;
    }
    case O_CODEC: {
        varintBitmapOptimize(s->A); /* must never change the set */
        size_t len = varintBitmapEncode(s->A, encbuf);
        /* exact-size heap copy so that a decoder over-read is visible to the sanitised build */
        uint8_t *copy = malloc(len ? len : 1);
        memcpy(copy, encbuf, len);
        varintBitmap *d = varintBitmapDecode(copy, len);
        free(copy);
        if (!d) {
            BFAIL("model_divergence", "%s: decode(encode(A)) returned NULL (len %zu)", cur_hist, len);
            break;
        }
        if (check) {
            check_observers(api, "encoded source", s->A, &s->mA);
        }
        varintBitmapFree(s->A);
        s->A = d;
        break;
    }
    }
    if (check) {
        check_observers(api, "A", s->A, &s->mA);
        check_observers(api, "B", s->B, &s->mB);
        int t1 = (int)s->A->type;
        if (t0 >= 0 && t0 < 3 && t1 >= 0 && t1 < 3 && !trans_seen[t0][t1]) {
            trans_seen[t0][t1] = 1;
            char ck[64];
            snprintf(ck, sizeof ck, "container-transition/%s->%s", TYPEN[t0], TYPEN[t1]);
            vh_class(ck, "%s + %s", cur_hist, api);
        }
    }
    memcpy(cur_hist, savehist, sizeof savehist);
    vh_count("transitions", 1);
    vh_count("calls", 1);
}

/* canonical key of a state: per register (type, cardinality, capacity, digest of the model) */
typedef struct {
    uint64_t a, b;
} key128;
static key128 canon(const state *s) {
    key128 k;
    uint64_t capA = s->A->type == VARINT_BITMAP_ARRAY ? s->A->container.array.capacity : s->A->type == VARINT_BITMAP_RUNS ? ((uint64_t)s->A->container.runs.numRuns << 32 | s->A->container.runs.capacity) : 0;
    uint64_t capB = s->B->type == VARINT_BITMAP_ARRAY ? s->B->container.array.capacity : s->B->type == VARINT_BITMAP_RUNS ? ((uint64_t)s->B->container.runs.numRuns << 32 | s->B->container.runs.capacity) : 0;
    k.a = bs_hash(&s->mA) ^ ((uint64_t)s->A->type << 62) ^ (capA * 0x9e3779b97f4a7c15ULL) ^ ((uint64_t)s->A->cardinality << 17);
    k.b = bs_hash(&s->mB) * 3 ^ ((uint64_t)s->B->type << 60) ^ (capB * 0xc2b2ae3d27d4eb4fULL) ^ ((uint64_t)s->B->cardinality << 23);
    return k;
}

/* seen set: open addressing */
static key128 *seen;
static size_t seen_cap, seen_n;
static int seen_add(key128 k) {
    if (k.a == 0 && k.b == 0) {
        k.a = 1;
    }
    if ((seen_n + 1) * 2 > seen_cap) {
        size_t nc = seen_cap ? seen_cap * 2 : 1 << 16;
        key128 *ns = calloc(nc, sizeof *ns);
        for (size_t i = 0; i < seen_cap; i++) {
            if (seen[i].a || seen[i].b) {
                size_t h = (seen[i].a ^ seen[i].b * 31) & (nc - 1);
                while (ns[h].a || ns[h].b) {
                    h = (h + 1) & (nc - 1);
                }
                ns[h] = seen[i];
            }
        }
        free(seen);
        seen = ns;
        seen_cap = nc;
    }
    size_t h = (k.a ^ k.b * 31) & (seen_cap - 1);
    while (seen[h].a || seen[h].b) {
        if (seen[h].a == k.a && seen[h].b == k.b) {
            return 0;
        }
        h = (h + 1) & (seen_cap - 1);
    }
    seen[h] = k;
    seen_n++;
    return 1;
}

#define MAXDEPTH 8
typedef struct {
    uint8_t h[MAXDEPTH];
    uint8_t len;
    key128 key;
} hist;

static void hist_str(const hist *h, char *out, size_t cap) {
    size_t p = 0;
    out[0] = 0;
    for (int i = 0; i < h->len; i++) {
        p += (size_t)snprintf(out + p, cap - p, "%s%s", i ? "; " : "", OPS[h->h[i]].name);
        if (p >= cap) {
            break;
        }
    }
}
static void hist_section(const hist *h, int upto, const char *scope, char *out, size_t cap) {
    size_t p = (size_t)snprintf(out, cap, "hist:%s:", scope);
    for (int i = 0; i < upto; i++) {
        p += (size_t)snprintf(out + p, cap - p, "%s%d", i ? "," : "", h->h[i]);
    }
}

static void replay_history(state *s, const hist *h, int upto, int check_last) {
    state_init(s);
    for (int i = 0; i < upto; i++) {
        apply(s, h->h[i], check_last && i == upto - 1);
    }
}

static void bfs(const char *scope, int depth) {
    hist *front = malloc(sizeof(hist));
    size_t nfront = 1;
    front[0].len = 0;
    state root;
    state_init(&root);
    front[0].key = canon(&root);
    seen_add(front[0].key);
    state_free(&root);
    int closed = 0, cut = 0;
    uint64_t nstates = 1;
    for (int d = 0; d < depth; d++) {
        hist *next = NULL;
        size_t nnext = 0, capnext = 0;
        for (size_t fi = 0; fi < nfront; fi++) {
            if (vh_deadline_now()) {
                cut = 1;
                break;
            }
            hist *h = &front[fi];
            state base;
            snprintf(vh_section, sizeof vh_section, "hist:%s:", scope);
            hist_str(h, cur_hist, sizeof cur_hist);
            replay_history(&base, h, h->len, 0);
            key128 k = canon(&base);
            if (k.a != h->key.a || k.b != h->key.b) {
                vh_fail("replay", "harness_nondeterminism", "untagged", "history [%s] reached a different canonical state on replay", cur_hist);
            }
            for (int oi = 0; oi < NOPS; oi++) {
                if (d == 0 && (unsigned)oi % vh_nshards != vh_shard) {
                    continue; /* shard = first operation */
                }
                state s;
                state_copy(&s, &base);
                hist nh = *h;
                nh.h[nh.len++] = (uint8_t)oi;
                hist_section(&nh, nh.len, scope, vh_section, sizeof vh_section);
                vh_idx = 0;
                uint64_t nf0 = vh_nfail;
                if (SB_ENTER()) {
                    apply(&s, oi, 1);
                    SB_LEAVE();
                } else {
                    vh_fail(OPS[oi].name, vh_fault_name(), "untagged", "%s: then %s: %s", cur_hist, OPS[oi].name, vh_fault_msg);
                    continue; /* state unusable after a fault: abandon (objects leaked deliberately) */
                }
                vh_count("cases", 1);
                nh.key = canon(&s);
                if (vh_nfail != nf0) {
                    state_free(&s);
                    continue; /* diverged from the model: reported once, not expanded further */
                }
                if (seen_add(nh.key)) {
                    nstates++;
                    if (d + 1 < depth) {
                        if (nnext == capnext) {
                            capnext = capnext ? capnext * 2 : 1024;
                            next = realloc(next, capnext * sizeof(hist));
                        }
                        next[nnext++] = nh;
                    }
                    char ck[96];
                    snprintf(ck, sizeof ck, "%s/state/%s:%s/card%s", scope, TYPEN[s.A->type % 3], TYPEN[s.B->type % 3], s.A->cardinality == 0 ? "0" : s.A->cardinality < 4096 ? "<4096" : s.A->cardinality == 4096 ? "=4096" : ">4096");
                    char hs[256];
                    hist_str(&nh, hs, sizeof hs);
                    vh_class(ck, "%s", hs);
                }
                state_free(&s);
            }
            state_free(&base);
        }
        free(front);
        front = next;
        nfront = nnext;
        char fl[64];
        snprintf(fl, sizeof fl, "%s_depth_%d_complete", scope, d + 1);
        vh_flag(fl, !cut);
        if (cut) {
            break;
        }
        if (nfront == 0 && d + 1 < depth) {
            closed = 1;
            break;
        }
    }
    free(front);
    vh_count("states", nstates);
    char nm[64];
    snprintf(nm, sizeof nm, "%s_closure_reached", scope);
    vh_infostr(nm, "%s", closed ? "yes (frontier emptied)" : "no (cut by depth bound)");
    snprintf(nm, sizeof nm, "%s_depth", scope);
    vh_infostr(nm, "%d", depth);
    snprintf(nm, sizeof nm, "%s_alphabet", scope);
    vh_infostr(nm, "%d operations", NOPS);
}

/* ---------------------------------------------------------------- operand-shape product for the binary set operations
 * The BFS reaches operands through short histories, so both operands have similar, small sizes.  This section decides
 * the binary operations on operands of very DIFFERENT shapes: a library of sets of every container type and size
 * class, every ordered pair of library sets, and against every library set every subset of size <= 3 of a probe
 * alphabet placed relative to that set (members, non-members, neighbours of members, both ends). */
#define LIBMAX 64
static varintBitmap *LIB[LIBMAX];
static bitset *LIBM;
static char LIBN[LIBMAX][48];
static int NLIB = 0;

static void lib_add(const char *name, varintBitmap *vb, const bitset *m) {
    if (NLIB >= LIBMAX) {
        return;
    }
    LIB[NLIB] = vb;
    LIBM[NLIB] = *m;
    snprintf(LIBN[NLIB], sizeof LIBN[NLIB], "%s/%s", name, vb->type < 3 ? TYPEN[vb->type] : "?");
    NLIB++;
}
static void lib_stride(const char *name, uint32_t first, uint32_t stride, uint32_t count, int one_by_one) {
    varintBitmap *vb = varintBitmapCreate();
    bitset m;
    memset(&m, 0, sizeof m);
    uint16_t *tmp = malloc(count * 2 + 2);
    uint32_t k = 0;
    for (uint32_t i = 0; i < count && first + i * stride < U; i++) {
        tmp[k++] = (uint16_t)(first + i * stride);
        bs_set(&m, first + i * stride);
    }
    if (one_by_one) {
        for (uint32_t i = 0; i < k; i++) {
            varintBitmapAdd(vb, tmp[i]); /* ascending single adds */
        }
    } else {
        varintBitmapAddMany(vb, tmp, k);
    }
    free(tmp);
    lib_add(name, vb, &m);
    /* the same set after Optimize (may change the container) */
    varintBitmap *o = varintBitmapClone(vb);
    if (o) {
        varintBitmapOptimize(o);
        if (o->type != vb->type) {
            lib_add(name, o, &m);
        } else {
            varintBitmapFree(o);
        }
    }
}
static void lib_range(const char *name, uint32_t lo, uint32_t hi, uint32_t hole_every) {
    varintBitmap *vb = varintBitmapCreate();
    bitset m;
    memset(&m, 0, sizeof m);
    varintBitmapAddRange(vb, (uint16_t)lo, (uint16_t)hi);
    model_range(&m, lo, hi, 1);
    if (hi == 65535) {
        varintBitmapAdd(vb, 65535);
        bs_set(&m, 65535);
    }
    if (hole_every) {
        for (uint32_t x = lo; x < hi; x += hole_every) {
            varintBitmapRemove(vb, (uint16_t)x);
            bs_clr(&m, x);
        }
    }
    lib_add(name, vb, &m);
    varintBitmap *o = varintBitmapClone(vb);
    if (o) {
        varintBitmapOptimize(o);
        if (o->type != vb->type) {
            lib_add(name, o, &m);
        } else {
            varintBitmapFree(o);
        }
    }
}
static void build_library(void) {
    LIBM = malloc(sizeof(bitset) * LIBMAX);
    NLIB = 0;
    bitset m;
    memset(&m, 0, sizeof m);
    lib_add("empty", varintBitmapCreate(), &m);
    lib_stride("{0}", 0, 1, 1, 1);
    lib_stride("{65535}", 65535, 1, 1, 1);
    lib_stride("{4096}", 4096, 1, 1, 1);
    lib_stride("16 x3", 30, 3, 16, 1);
    lib_stride("17 x3", 30, 3, 17, 1);
    lib_stride("65 odd", 1001, 2, 65, 0);
    lib_stride("129 odd", 1001, 2, 129, 0);
    lib_stride("193 x5", 7, 5, 193, 0);
    lib_stride("301 x3", 0, 3, 301, 0);
    lib_stride("1025 x3", 2, 3, 1025, 0);
    lib_stride("4095 x7", 0, 7, 4095, 0);
    lib_stride("4096 x7", 0, 7, 4096, 0);
    lib_stride("4097 x7", 0, 7, 4097, 0);
    lib_stride("5000 x13", 0, 13, 5000, 0);
    lib_stride("4096 consecutive", 100, 1, 4096, 0);
    lib_stride("300 consecutive", 65236, 1, 300, 0);
    lib_range("[0,4096)", 0, 4096, 0);
    lib_range("[10,5000)", 10, 5000, 0);
    lib_range("[0,65535]", 0, 65535, 0);
    lib_range("[0,65535] minus x7", 0, 65535, 7);
    lib_range("[1000,9000) minus x64", 1000, 9000, 64);
    lib_range("[60000,65535]", 60000, 65535, 0);
    /* runs whose LENGTH sits at the top of its 16-bit field: 65535 and 65534 members */
    lib_range("[1,65535]", 1, 65535, 0);
    lib_range("[2,65535]", 2, 65535, 0);
    /* sets whose container type is a left-over of their past: empty but still dense / run-encoded, a few members left
     * in a dense container, the full universe built by single adds */
    {
        bitset m0;
        varintBitmap *vb;
        memset(&m0, 0, sizeof m0);
        vb = varintBitmapCreate();
        for (uint32_t i = 0; i < 5000; i++) {
            varintBitmapAdd(vb, (uint16_t)(i * 13));
        }
        varintBitmapClear(vb);
        lib_add("cleared (was dense)", vb, &m0);
        vb = varintBitmapCreate();
        varintBitmapAddRange(vb, 100, 9000);
        varintBitmapClear(vb);
        lib_add("cleared (was a range)", vb, &m0);
        vb = varintBitmapCreate();
        for (uint32_t i = 0; i < 5000; i++) {
            varintBitmapAdd(vb, (uint16_t)(i * 13));
        }
        for (uint32_t i = 3; i < 5000; i++) {
            varintBitmapRemove(vb, (uint16_t)(i * 13));
        }
        bs_set(&m0, 0);
        bs_set(&m0, 13);
        bs_set(&m0, 26);
        lib_add("3 left of 5000", vb, &m0);
        vb = varintBitmapCreate();
        memset(&m0, 0, sizeof m0);
        for (uint32_t i = 0; i < U; i++) {
            varintBitmapAdd(vb, (uint16_t)i);
            bs_set(&m0, i);
        }
        lib_add("universe by single adds", vb, &m0);
        vb = varintBitmapCreate();
        memset(&m0, 0, sizeof m0);
        for (uint32_t i = 0; i < U; i++) {
            if (i != 12345) {
                varintBitmapAdd(vb, (uint16_t)i);
                bs_set(&m0, i);
            }
        }
        lib_add("universe minus one", vb, &m0);
    }
    vh_infostr("pairs_library", "%d sets", NLIB);
}

static void check_binop(int k, int xi, const varintBitmap *x, const bitset *mx, const char *xn, const varintBitmap *y, const bitset *my, const char *yn) {
    static const char *API[4] = {"bitmap.And", "bitmap.Or", "bitmap.Xor", "bitmap.AndNot"};
    const char *api = API[k];
    (void)xi;
    snprintf(cur_hist, sizeof cur_hist, "[%s(%s, %s)]", api + 7, xn, yn);
    varintBitmap *r = k == 0 ? varintBitmapAnd(x, y) : k == 1 ? varintBitmapOr(x, y) : k == 2 ? varintBitmapXor(x, y) : varintBitmapAndNot(x, y);
    if (!r) {
        BFAIL("model_divergence", "%s returned NULL", cur_hist);
        return;
    }
    bitset mr;
    for (int i = 0; i < U / 64; i++) {
        mr.w[i] = k == 0 ? (mx->w[i] & my->w[i]) : k == 1 ? (mx->w[i] | my->w[i]) : k == 2 ? (mx->w[i] ^ my->w[i]) : (mx->w[i] & ~my->w[i]);
    }
    check_observers(api, "result", r, &mr);
    check_observers(api, "left operand", x, mx);
    check_observers(api, "right operand", y, my);
    char ck[96];
    snprintf(ck, sizeof ck, "binop/%s/%s,%s->%s", api + 7, TYPEN[x->type], TYPEN[y->type], TYPEN[r->type]);
    vh_class(ck, "%s", cur_hist);
    varintBitmapFree(r);
    vh_count("transitions", 1);
    vh_count("calls", 1);
}

static void pairs_section(void) {
    build_library();
    NPROBES = 0;
    static const uint32_t PP[] = {0, 1, 2, 3, 30, 31, 33, 75, 78, 100, 102, 500, 600, 899, 900, 901, 1001, 1002, 1003, 1129, 1130, 1131, 1257, 1259, 4095, 4096, 4097, 5000, 9000, 28665, 28672, 60000, 64987, 65000, 65235, 65236, 65534, 65535};
    for (size_t i = 0; i < sizeof PP / sizeof *PP; i++) {
        PROBES[NPROBES++] = PP[i];
    }
    if (vh_section_begin("pairs")) {
        /* every ordered pair of library sets x 4 operations */
        for (int a = 0; a < NLIB; a++) {
            for (int b = 0; b < NLIB; b++) {
                if (!vh_case()) {
                    continue;
                }
                if (SB_ENTER()) {
                    for (int k = 0; k < 4; k++) {
                        check_binop(k, a, LIB[a], &LIBM[a], LIBN[a], LIB[b], &LIBM[b], LIBN[b]);
                    }
                    SB_LEAVE();
                } else {
                    vh_fail("bitmap.binop", vh_fault_name(), "untagged", "%s: %s", cur_hist, vh_fault_msg);
                }
                vh_count("operand_pairs", 1);
            }
        }
    }
    if (vh_section_begin("bulk")) {
        /* AddMany with lists of every order class x size class, onto every library set and onto cleared containers */
        enum { NBULK = 12 };
        static uint16_t BL[NBULK][5000];
        static uint32_t BN[NBULK];
        static const char *BNAME[NBULK] = {"40 non-decreasing with adjacent duplicates", "17 strictly ascending", "16 strictly ascending", "17 non-decreasing with duplicates", "4096 strictly ascending", "4097 non-decreasing with duplicates",
                                           "40 descending", "20 unsorted with duplicates", "4096 non-decreasing with duplicates", "300 ascending, last repeated", "18 all equal", "4100 strictly ascending"};
        uint32_t k;
        for (k = 0; k < 40; k++) BL[0][k] = (uint16_t)(1000 + k / 2);
        BN[0] = 40;
        for (k = 0; k < 17; k++) BL[1][k] = (uint16_t)(200 + 3 * k);
        BN[1] = 17;
        for (k = 0; k < 16; k++) BL[2][k] = (uint16_t)(200 + 3 * k);
        BN[2] = 16;
        for (k = 0; k < 17; k++) BL[3][k] = (uint16_t)(500 + k - (k > 8));
        BN[3] = 17;
        for (k = 0; k < 4096; k++) BL[4][k] = (uint16_t)(7 + 5 * k);
        BN[4] = 4096;
        for (k = 0; k < 4097; k++) BL[5][k] = (uint16_t)(9 + 3 * (k - (k > 2000)));
        BN[5] = 4097;
        for (k = 0; k < 40; k++) BL[6][k] = (uint16_t)(4120 - k);
        BN[6] = 40;
        for (k = 0; k < 20; k++) BL[7][k] = (uint16_t)((k * 7919) % 13 * 100);
        BN[7] = 20;
        for (k = 0; k < 4096; k++) BL[8][k] = (uint16_t)(11 + 2 * (k / 2));
        BN[8] = 4096;
        for (k = 0; k < 300; k++) BL[9][k] = (uint16_t)(60000 + (k < 299 ? k : 298));
        BN[9] = 300;
        for (k = 0; k < 18; k++) BL[10][k] = 4096;
        BN[10] = 18;
        for (k = 0; k < 4100; k++) BL[11][k] = (uint16_t)(1 + 13 * k);
        BN[11] = 4100;
        for (int a = 0; a < NLIB + 2; a++) {
            for (int b = 0; b < NBULK; b++) {
                if (!vh_case()) {
                    continue;
                }
                varintBitmap *d;
                bitset m;
                char dn[64];
                if (a < NLIB) {
                    d = varintBitmapClone(LIB[a]);
                    m = LIBM[a];
                    snprintf(dn, sizeof dn, "%s", LIBN[a]);
                } else {
                    /* a cleared container: array (a == NLIB) or dense (a == NLIB + 1) */
                    d = varintBitmapCreate();
                    if (a == NLIB) {
                        varintBitmapAdd(d, 5);
                        varintBitmapAdd(d, 9);
                    } else {
                        varintBitmapAddMany(d, BL[11], BN[11]);
                    }
                    varintBitmapClear(d);
                    memset(&m, 0, sizeof m);
                    snprintf(dn, sizeof dn, a == NLIB ? "cleared array" : "cleared dense");
                }
                if (!d) {
                    continue;
                }
                snprintf(cur_hist, sizeof cur_hist, "[%s; addMany(%s)]", dn, BNAME[b]);
                const char *api = "bitmap.AddMany";
                if (SB_ENTER()) {
                    varintBitmapAddMany(d, BL[b], BN[b]);
                    for (uint32_t i = 0; i < BN[b]; i++) {
                        bs_set(&m, BL[b][i]);
                    }
                    check_observers(api, "destination", d, &m);
                    /* follow-up: removing a just-added element removes it */
                    uint16_t x = BL[b][BN[b] / 2];
                    int got = varintBitmapRemove(d, x);
                    bs_clr(&m, x);
                    if (!got || varintBitmapContains(d, x)) {
                        BFAIL("model_divergence", "%s: then remove(%u) returned %d and contains(%u)=%d", cur_hist, x, got, x, (int)varintBitmapContains(d, x));
                    }
                    check_observers("bitmap.Remove", "destination after remove", d, &m);
                    size_t len = varintBitmapEncode(d, encbuf);
                    uint8_t *copy = malloc(len ? len : 1);
                    memcpy(copy, encbuf, len);
                    varintBitmap *dd = varintBitmapDecode(copy, len);
                    free(copy);
                    if (!dd) {
                        BFAIL("model_divergence", "%s: decode(encode) returned NULL", cur_hist);
                    } else {
                        check_observers("bitmap.Encode/Decode", "decoded copy", dd, &m);
                        varintBitmapFree(dd);
                    }
                    SB_LEAVE();
                } else {
                    vh_fail(api, vh_fault_name(), "untagged", "%s: %s", cur_hist, vh_fault_msg);
                }
                varintBitmapFree(d);
                vh_count("transitions", 3);
                vh_count("calls", 3);
                vh_count("bulk_cases", 1);
            }
        }
        vh_class("bulk/addMany", "%d destinations x %d lists", NLIB + 2, NBULK);
    }
    /* long scripted histories: a container filled in one step (a run) or by single adds, then DRAINED element by element
     * in a fixed order - thousands of calls on one long-lived object whose intermediate states are each compared with the
     * model (change report and cardinality at every step, all observers every 509 steps) - and, once empty, probed with
     * removes / adds just outside and at its former ends */
    if (vh_section_begin("drain")) {
        static const uint32_t BASE[][2] = {{100, 5101}, {1, 4200}, {0, 4098}, {60000, 65535}, {7, 300}, {2000, 6097}};
        static const char *ORD[4] = {"descending", "ascending", "alternating ends", "middle outwards"};
        const char *api = "bitmap.history";
        for (size_t b = 0; b < sizeof BASE / sizeof *BASE; b++) {
            for (int fill = 0; fill < 2; fill++) {
                for (int ord = 0; ord < 4; ord++) {
                    if (!vh_case()) {
                        continue;
                    }
                    uint32_t lo = BASE[b][0], hi = BASE[b][1], n = hi - lo;
                    varintBitmap *vb = varintBitmapCreate();
                    static bitset m;
                    memset(&m, 0, sizeof m);
                    if (fill == 0) {
                        varintBitmapAddRange(vb, (uint16_t)lo, (uint16_t)hi);
                    } else {
                        for (uint32_t x = lo; x < hi; x++) {
                            varintBitmapAdd(vb, (uint16_t)x);
                        }
                    }
                    model_range(&m, lo, hi, 1);
                    snprintf(cur_hist, sizeof cur_hist, "[%s [%u,%u); remove every member singly, %s]", fill ? "single adds of" : "addRange", lo, hi, ORD[ord]);
                    check_observers(api, "A", vb, &m);
                    uint32_t l = lo, h = hi, ml = lo + n / 2, mh = lo + n / 2;
                    for (uint32_t k = 0; k < n; k++) {
                        uint32_t x;
                        if (ord == 0) {
                            x = --h;
                        } else if (ord == 1) {
                            x = l++;
                        } else if (ord == 2) {
                            x = (k & 1) ? l++ : --h;
                        } else {
                            x = ((k & 1) && ml > lo) || mh >= hi ? --ml : mh++;
                        }
                        int want = bs_get(&m, x);
                        int got = varintBitmapRemove(vb, (uint16_t)x);
                        bs_clr(&m, x);
                        uint32_t card = varintBitmapCardinality(vb);
                        if (got != want || card != n - k - 1) {
                            BFAIL("model_divergence", "%s: step %u Remove(%u) returned %d (model %d), cardinality %u (model %u)", cur_hist, k, x, got, want, card, n - k - 1);
                            break;
                        }
                        if (k % 509 == 0) {
                            check_observers(api, "A", vb, &m);
                        }
                        vh_count("calls", 2);
                    }
                    check_observers(api, "A", vb, &m);
                    /* the drained object: removes of absent neighbours must change nothing, adds must work */
                    uint32_t T[6] = {lo ? lo - 1 : 0, lo, hi - 1, hi < 65535 ? hi : 65535, lo + n / 2, lo ? lo - 1 : 0};
                    for (int t = 0; t < 6; t++) {
                        int want = bs_get(&m, T[t]);
                        int got = varintBitmapRemove(vb, (uint16_t)T[t]);
                        if (got != want) {
                            BFAIL("wrong_change_report", "%s, then Remove(%u) on the drained set returned %d", cur_hist, T[t], got);
                        }
                        check_observers(api, "A", vb, &m);
                    }
                    for (int t = 0; t < 5; t++) {
                        int want = !bs_get(&m, T[t]);
                        int got = varintBitmapAdd(vb, (uint16_t)T[t]);
                        bs_set(&m, T[t]);
                        if (got != want) {
                            BFAIL("wrong_change_report", "%s, then Add(%u) returned %d (model %d)", cur_hist, T[t], got, want);
                        }
                        check_observers(api, "A", vb, &m);
                    }
                    varintBitmapFree(vb);
                    vh_count("cases", 1);
                }
            }
        }
        vh_class("drain", "6 base ranges x {range fill, single adds} x 4 removal orders");
    }
    if (vh_section_begin("pairs-small")) {
        /* against every library set L: every subset of size 1..3 of a probe alphabet placed relative to L */
        for (int a = 0; a < NLIB; a++) {
            uint32_t P[12];
            int np = 0;
            const bitset *m = &LIBM[a];
            uint32_t first = U, last = U, mid = U, card = bs_card(m), seenc = 0;
            for (uint32_t x = 0; x < U; x++) {
                if (bs_get(m, x)) {
                    if (first == U) {
                        first = x;
                    }
                    last = x;
                    if (seenc++ == card / 2) {
                        mid = x;
                    }
                }
            }
            if (first == U) {
                first = 5, mid = 4096, last = 65530;
            }
            /* members, their immediate neighbours (member or not), the gap before the next member, both ends */
            uint32_t cand[12] = {0, first, first + 1, mid ? mid - 1 : 0, mid, mid + 1, mid + 2, last ? last - 1 : 0, last, last + 1, 65535, (first + mid) / 2};
            for (int i = 0; i < 12; i++) {
                uint32_t x = cand[i] & 0xffff;
                int dup = 0;
                for (int j = 0; j < np; j++) {
                    dup |= P[j] == x;
                }
                if (!dup) {
                    P[np++] = x;
                }
            }
            /* sort ascending */
            for (int i = 0; i < np; i++) {
                for (int j = i + 1; j < np; j++) {
                    if (P[j] < P[i]) {
                        uint32_t t = P[i];
                        P[i] = P[j];
                        P[j] = t;
                    }
                }
            }
            int maxk = vh_thorough ? 4 : 3;
            for (uint32_t mask = 1; mask < (1u << np); mask++) {
                if (__builtin_popcount(mask) > maxk) {
                    continue;
                }
                if (!vh_case()) {
                    continue;
                }
                varintBitmap *sm = varintBitmapCreate();
                bitset ms;
                memset(&ms, 0, sizeof ms);
                char sn[64] = "{";
                for (int i = 0; i < np; i++) {
                    if (mask >> i & 1) {
                        varintBitmapAdd(sm, (uint16_t)P[i]);
                        bs_set(&ms, P[i]);
                        snprintf(sn + strlen(sn), sizeof sn - strlen(sn), "%s%u", strlen(sn) > 1 ? "," : "", P[i]);
                    }
                }
                snprintf(sn + strlen(sn), sizeof sn - strlen(sn), "}");
                if (SB_ENTER()) {
                    for (int k = 0; k < 4; k++) {
                        check_binop(k, a, sm, &ms, sn, LIB[a], &LIBM[a], LIBN[a]);
                        check_binop(k, a, LIB[a], &LIBM[a], LIBN[a], sm, &ms, sn);
                    }
                    SB_LEAVE();
                } else {
                    vh_fail("bitmap.binop", vh_fault_name(), "untagged", "%s: %s", cur_hist, vh_fault_msg);
                }
                varintBitmapFree(sm);
                vh_count("operand_pairs", 2);
            }
        }
    }
}

int main(int argc, char **argv) {
    vh_init(argc, argv);
    vh_sandbox_init();
    vh_watchdog(60); /* a library call that makes no progress for a whole period is reported as a hang */
    int dl = vh_thorough ? 4 : 3, ds = vh_thorough ? 6 : 5, dr = vh_thorough ? 5 : 0;
    if (getenv("VERIF_BFS_DEPTH")) {
        dl = atoi(getenv("VERIF_BFS_DEPTH"));
    }
    if (vh_replay && strncmp(vh_replay_section, "hist:", 5) != 0) {
        pairs_section();
        vh_write_out();
        return 0;
    }
    if (vh_replay) {
        /* "hist:<scope>:i,j,k#0" : run exactly that history with all checks */
        char scope[32] = "";
        hist h;
        h.len = 0;
        if (strncmp(vh_replay_section, "hist:", 5) == 0) {
            const char *p = vh_replay_section + 5;
            const char *c = strchr(p, ':');
            if (c) {
                memcpy(scope, p, (size_t)(c - p));
                scope[c - p] = 0;
                p = c + 1;
                while (*p && h.len < MAXDEPTH) {
                    h.h[h.len++] = (uint8_t)strtoul(p, (char **)&p, 10);
                    if (*p == ',') {
                        p++;
                    }
                }
            }
        }
        build_alphabet(!strcmp(scope, "small"), !strcmp(scope, "reduced"));
        build_probes();
        state s;
        state_init(&s);
        for (int i = 0; i < h.len; i++) {
            hist_section(&h, i + 1, scope, vh_section, sizeof vh_section);
            hist ph = h;
            ph.len = (uint8_t)i;
            hist_str(&ph, cur_hist, sizeof cur_hist);
            vh_idx = 0;
            if (SB_ENTER()) {
                apply(&s, h.h[i], 1);
                SB_LEAVE();
            } else {
                vh_fail(OPS[h.h[i]].name, vh_fault_name(), "untagged", "%s: then %s: %s", cur_hist, OPS[h.h[i]].name, vh_fault_msg);
                break;
            }
        }
        vh_write_out();
        return 0;
    }
    /* scope 1: large universe */
    build_alphabet(0, 0);
    build_probes();
    memset(trans_seen, 0, sizeof trans_seen);
    bfs("large", dl);
    /* scope 2: tiny universe {0..5}, deeper */
    free(seen);
    seen = NULL;
    seen_cap = seen_n = 0;
    build_alphabet(1, 0);
    build_probes();
    bfs("small", ds);
    if (dr) {
        free(seen);
        seen = NULL;
        seen_cap = seen_n = 0;
        build_alphabet(0, 1);
        build_probes();
        bfs("reduced", dr);
    }
    pairs_section();
    vh_write_out();
    return 0;
}
