/* scalar.c - E-enum harness for the scalar varint families.
 *   --prop C01  round trip, agreeing lengths, no stray writes, signed helpers
 *   --prop C04  byte-exact vs reference encoders, canonical, length-monotone; Elias/zig-zag definitions
 *   --prop C05  tagged encodings sort bytewise (pairs, tuples)
 *   --prop C12  in-place add
 */
#include "vh.h"
#include <sys/mman.h>

#include "varint.h"
#include "varintChained.h"
#include "varintChainedSimple.h"
#include "varintDelta.h"
#include "varintElias.h"
#include "varintExternal.h"
#include "varintExternalBigEndian.h"
#include "varintSplit.h"
#include "varintSplitFull.h"
#include "varintSplitFull16.h"
#include "varintSplitFullNoZero.h"
#include "varintTagged.h"

#include "alphabet.h"
#include "ref_scalar.h"

/* defined in varintTagged.c under these names (header declares Put32/Get32, see DESIGN) */
varintWidth varintTaggedPutVarint32(uint8_t *p, uint32_t v);
varintWidth varintTaggedGetVarint32(const uint8_t *z, uint32_t *pResult);

static const char *PROP = "C01";
static int P_C01, P_C04, P_C05, P_C12;

/* value in flight (for fault attribution) */
static volatile uint64_t cur_v;
static const char *volatile cur_api = "";

/* ------------------------------------------------------------------ families */
enum { F_TAGGED, F_EXT_LE, F_EXT_BE, F_CHAINED, F_CSIMPLE, F_SPLIT, F_SPLITFULL, F_SPLITNZ, F_SPLIT16, F_N };
static const char *FNAME[F_N] = {"tagged", "externalLE", "externalBE", "chained", "chainedSimple",
                                 "split",  "splitFull",  "splitFullNoZero", "splitFull16"};
static const int FMINLEN[F_N] = {1, 1, 1, 1, 1, 1, 1, 1, 2};
static const int FMAXLEN[F_N] = {9, 8, 8, 9, 9, 9, 9, 9, 9};

static int ref_encode(int fam, uint64_t v, uint8_t *o) {
    switch (fam) {
    case F_TAGGED:
        return ref_tagged(v, o);
    case F_EXT_LE:
        return ref_external_le(v, o);
    case F_EXT_BE:
        return ref_external_be(v, o);
    case F_CHAINED:
        return ref_chained(v, o);
    case F_CSIMPLE:
        return ref_chained_simple(v, o);
    case F_SPLIT:
        return ref_split(v, o);
    case F_SPLITFULL:
        return ref_split_full(v, o);
    case F_SPLITNZ:
        return ref_split_full_nz(v, o);
    case F_SPLIT16:
        return ref_split_full16(v, o);
    }
    return 0;
}

/* value operands of the macro forms: an operand expression is evaluated once by the unchanged library for the tagged
 * and split macros (as by the functions they replace), so the harness passes an expression whose value differs on a
 * second evaluation; a macro that evaluates it twice then encodes a mixture, which the byte / round-trip oracles see */
static int g_nev;
static inline uint64_t ev_once(uint64_t v) { return ++g_nev == 1 ? v : (v ^ (0x0101010101010101ULL * (uint64_t)g_nev)) + 0x9e37ULL; }

/* core put / get / len / getlen (function forms and macro forms of the split families) */
static int fam_put(int fam, uint8_t *p, uint64_t v) {
    int len = 0;
    switch (fam) {
    case F_TAGGED:
        return (int)varintTaggedPut64(p, v);
    case F_EXT_LE:
        return (int)varintExternalPut(p, v);
    case F_EXT_BE:
        return (int)varintExternalBigEndianPut(p, v);
    case F_CHAINED:
        return (int)varintChainedPutVarint(p, v);
    case F_CSIMPLE:
        return (int)varintChainedSimpleEncode64(p, v);
    case F_SPLIT:
        g_nev = 0;
        varintSplitPut_(p, len, ev_once(v));
        return len;
    case F_SPLITFULL:
        g_nev = 0;
        varintSplitFullPut_(p, len, ev_once(v));
        return len;
    case F_SPLITNZ:
        g_nev = 0;
        varintSplitFullNoZeroPut_(p, len, ev_once(v));
        return len;
    case F_SPLIT16:
        g_nev = 0;
        varintSplitFull16Put_(p, len, ev_once(v));
        return len;
    }
    return 0;
}
/* decoder: `len` is the externally known width for the external families */
static int fam_get(int fam, const uint8_t *p, int len, uint64_t *out) {
    int n = 0;
    uint64_t v = 0;
    switch (fam) {
    case F_TAGGED:
        return (int)varintTaggedGet64(p, out);
    case F_EXT_LE:
        *out = varintExternalGet(p, (varintWidth)len);
        return len;
    case F_EXT_BE:
        *out = varintExternalBigEndianGet(p, (varintWidth)len);
        return len;
    case F_CHAINED:
        return (int)varintChainedGetVarint(p, out);
    case F_CSIMPLE:
        return (int)varintChainedSimpleDecode64(p, out);
    case F_SPLIT:
        varintSplitGet_(p, n, v);
        *out = v;
        return n;
    case F_SPLITFULL:
        varintSplitFullGet_(p, n, v);
        *out = v;
        return n;
    case F_SPLITNZ:
        varintSplitFullNoZeroGet_(p, n, v);
        *out = v;
        return n;
    case F_SPLIT16:
        varintSplitFull16Get_(p, n, v);
        *out = v;
        return n;
    }
    return 0;
}
static int fam_len(int fam, uint64_t v) {
    int len = 0;
    varintWidth w;
    switch (fam) {
    case F_TAGGED:
        return (int)varintTaggedLen(v);
    case F_EXT_LE:
        varintExternalUnsignedEncoding(v, w);
        return (int)w;
    case F_EXT_BE:
        varintExternalBigEndianUnsignedEncoding(v, w);
        return (int)w;
    case F_CHAINED:
        return (int)varintChainedVarintLen(v);
    case F_CSIMPLE:
        return (int)varintChainedSimpleLength(v);
    case F_SPLIT:
        varintSplitLength_(len, v);
        return len;
    case F_SPLITFULL:
        varintSplitFullLength_(len, v);
        return len;
    case F_SPLITNZ:
        varintSplitFullNoZeroLength_(len, v);
        return len;
    case F_SPLIT16:
        varintSplitFull16Length_(len, v);
        return len;
    }
    return 0;
}
/* length read back from the stored type byte; -1 when the family has no such reader */
static int fam_getlen(int fam, const uint8_t *p) {
    int n = 0;
    switch (fam) {
    case F_TAGGED:
        return (int)varintTaggedGetLen(p);
    case F_SPLIT:
        varintSplitGetLen_(p, n);
        return n;
    case F_SPLITFULL:
        varintSplitFullGetLen_(p, n);
        return n;
    case F_SPLITNZ:
        varintSplitFullNoZeroGetLen_(p, n);
        return n;
    case F_SPLIT16:
        varintSplitFull16GetLen_(p, n);
        return n;
    }
    return -1;
}
static int fam_getlen_quick(int fam, const uint8_t *p) {
    switch (fam) {
    case F_TAGGED:
        return (int)varintTaggedGetLenQuick_(p);
    case F_SPLIT:
        return (int)varintSplitGetLenQuick_(p);
    case F_SPLITFULL:
        return (int)varintSplitFullGetLenQuick_(p);
    case F_SPLITNZ:
        return (int)varintSplitFullNoZeroGetLenQuick_(p);
    case F_SPLIT16:
        return (int)varintSplitFull16GetLenQuick_(p);
    }
    return -1;
}

static const char *trigger_for(int fam, uint64_t v) {
    (void)fam;
    (void)v;
    return "untagged";
}

#define FAILV(api, kind, ...) vh_fail((api), (kind), trigger_for(fam, v), __VA_ARGS__)

/* ------------------------------------------------------------------ core evaluation
 * One value through put/get/len/getlen of one family, plain buffer with canaries,
 * two backgrounds. Returns encoded length (for monotonicity tracking). */
static uint8_t PB[64] __attribute__((aligned(64)));

static inline int bytes_all(const uint8_t *p, size_t n, uint8_t b) {
    for (size_t i = 0; i < n; i++) {
        if (p[i] != b) {
            return 0;
        }
    }
    return 1;
}

/* core_eval's destination buffer: PB (offsets 0..15) by default, the 256-byte PBW in the placement section */
static uint8_t PBW[256] __attribute__((aligned(64)));
static uint8_t *ce_buf = PB;
static size_t ce_size = sizeof PB;

static int core_eval(int fam, uint64_t v, int off) {
    char api[64];
    uint8_t first[16];
    int len0 = 0;
    for (int bgi = 0; bgi < 2; bgi++) {
        uint8_t bg = bgi ? 0x5a : 0xa5;
        memset(ce_buf, bg, ce_size);
        uint8_t *dst = ce_buf + 16 + off;
        cur_api = "put";
        int len = fam_put(fam, dst, v);
        if (len < FMINLEN[fam] || len > FMAXLEN[fam]) {
            snprintf(api, sizeof api, "%s.put", FNAME[fam]);
            FAILV(api, "length_out_of_range", "v=%" PRIu64 " len=%d", v, len);
            return len;
        }
        if (!bytes_all(ce_buf, (size_t)(16 + off), bg) || !bytes_all(dst + len, ce_size - (size_t)(16 + off + len), bg)) {
            snprintf(api, sizeof api, "%s.put", FNAME[fam]);
            FAILV(api, "stray_write", "v=%" PRIu64 " len=%d off=%d bg=%02x buf=%s", v, len, off, bg, vh_hex(ce_buf, ce_size));
        }
        if (bgi == 0) {
            memcpy(first, dst, (size_t)len);
            len0 = len;
        } else if (len != len0 || memcmp(first, dst, (size_t)len) != 0) {
            snprintf(api, sizeof api, "%s.put", FNAME[fam]);
            FAILV(api, "result_depends_on_buffer_contents", "v=%" PRIu64 " a=%s b=%s", v, vh_hex(first, (size_t)len0), vh_hex(dst, (size_t)len));
        }
        if (bgi == 1) {
            /* decode, lengths */
            uint64_t got = ~v;
            cur_api = "get";
            int glen = fam_get(fam, dst, len, &got);
            int plen = fam_len(fam, v);
            int slen = fam_getlen(fam, dst);
            int qlen = fam_getlen_quick(fam, dst);
            if (got != v) {
                snprintf(api, sizeof api, "%s.get", FNAME[fam]);
                FAILV(api, "roundtrip_mismatch", "v=%" PRIu64 " got=%" PRIu64 " bytes=%s", v, got, vh_hex(dst, (size_t)len));
            }
            if (glen != len || plen != len || (slen >= 0 && slen != len) || (qlen >= 0 && qlen != len)) {
                snprintf(api, sizeof api, "%s.len", FNAME[fam]);
                FAILV(api, "length_disagreement", "v=%" PRIu64 " put=%d get=%d predicted=%d stored=%d storedQuick=%d", v, len, glen, plen, slen, qlen);
            }
            if (P_C04) {
                uint8_t r[16];
                int rl = ref_encode(fam, v, r);
                if (rl != len || memcmp(r, dst, (size_t)len) != 0) {
                    snprintf(api, sizeof api, "%s.put", FNAME[fam]);
                    FAILV(api, "bytes_differ_from_reference", "v=%" PRIu64 " lib=%s ref=%s", v, vh_hex(dst, (size_t)len), vh_hex(r, (size_t)rl));
                }
                /* library must decode the documented bytes */
                memset(PB, 0x33, sizeof PB);
                memcpy(PB + 16, r, (size_t)rl);
                uint64_t g2 = ~v;
                int gl2 = fam_get(fam, PB + 16, rl, &g2);
                if (g2 != v || gl2 != rl) {
                    snprintf(api, sizeof api, "%s.get", FNAME[fam]);
                    FAILV(api, "reference_bytes_misdecoded", "v=%" PRIu64 " ref=%s got=%" PRIu64 " len=%d", v, vh_hex(r, (size_t)rl), g2, gl2);
                }
            }
        }
    }
    return len0;
}

/* ------------------------------------------------------------------ full evaluation (C01)
 * every entry point, every alignment, guard-page exact-size buffers */
static void check_guard_put(int fam, uint64_t v, int len) {
    /* destination is exactly `len` bytes before a PROT_NONE page */
    char api[64];
    uint8_t *g = vh_gb_get(0, (size_t)len, 0xee);
    int l2 = fam_put(fam, g, v);
    if (l2 != len || !vh_gb_canary_ok(0)) {
        snprintf(api, sizeof api, "%s.put", FNAME[fam]);
        FAILV(api, "stray_write", "guard buffer: v=%" PRIu64 " len=%d/%d canary_ok=%d", v, l2, len, vh_gb_canary_ok(0));
    }
    uint64_t got = ~v;
    int gl = fam_get(fam, g, len, &got);
    if (got != v || gl != len) {
        snprintf(api, sizeof api, "%s.get", FNAME[fam]);
        FAILV(api, "roundtrip_mismatch", "exact-size buffer: v=%" PRIu64 " got=%" PRIu64 " len=%d", v, got, gl);
    }
    int sl = fam_getlen(fam, g), ql = fam_getlen_quick(fam, g);
    if ((sl >= 0 && sl != len) || (ql >= 0 && ql != len)) {
        snprintf(api, sizeof api, "%s.len", FNAME[fam]);
        FAILV(api, "length_disagreement", "exact-size buffer: v=%" PRIu64 " stored=%d quick=%d want=%d", v, sl, ql, len);
    }
}

/* check a write of `len` bytes at dst inside PB left everything else == bg */
static int pb_clean(const uint8_t *dst, int len, uint8_t bg) {
    size_t a = (size_t)(dst - PB);
    return bytes_all(PB, a, bg) && bytes_all(dst + len, sizeof PB - a - (size_t)len, bg);
}

/* the documented grow-shrink-grow switches of the split-full families: the one place where a longer encoding is
 * followed by a shorter one (3 bytes at 4210749 / 4210750, 2 bytes for the next 255 values) */
static int shrink_allowed(int fam, uint64_t v_next) {
#ifdef VARINT_SPLIT_FULL_USE_MAXIMUM_RANGE
    if (fam == F_SPLITFULL && v_next == 4210750) {
        return 1;
    }
#endif
#ifdef VARINT_SPLIT_FULL_NO_ZERO_USE_MAXIMUM_RANGE
    if (fam == F_SPLITNZ && v_next == 4210751) {
        return 1;
    }
#endif
    (void)fam;
    (void)v_next;
    return 0;
}

static void full_tagged(uint64_t v) {
    const int fam = F_TAGGED;
    int len = ref_tagged(v, (uint8_t[16]){0});
    uint8_t *dst = PB + 24;
    uint64_t got;
    /* Get with lenMax, Get64ReturnValue, Get64Quick_, LenQuick */
    memset(PB, 0xa5, sizeof PB);
    varintTaggedPut64(dst, v);
    got = ~v;
    int gl = (int)varintTaggedGet(dst, len, &got);
    if (gl != len || got != v) {
        FAILV("tagged.Get(n=len)", "roundtrip_mismatch", "v=%" PRIu64 " got=%" PRIu64 " ret=%d", v, got, gl);
    }
    {
        /* the available-byte count is an int32_t: any count >= the encoded length must decode the same way */
        static const int32_t NS[] = {9, 10, 16, 127, 128, 255, 256, 257, 258, 260, 264, 265, 511, 512, 513, 1024, 4096, 32767, 32768, 65535, 65536, 65537, 65544, 1 << 20, (1 << 24) + 3, 0x7fffff00, 0x7ffffffe, 0x7fffffff};
        for (size_t k = 0; k < sizeof NS / sizeof *NS; k++) {
            for (int d = 0; d < 2; d++) {
                int32_t n = d ? NS[k] - 9 + len : NS[k]; /* also counts whose low byte is just below the length */
                if (n < len) {
                    continue;
                }
                got = ~v;
                gl = (int)varintTaggedGet(dst, n, &got);
                if (gl != len || got != v) {
                    FAILV("tagged.Get(n>=len)", "roundtrip_mismatch", "v=%" PRIu64 " available=%d got=%" PRIu64 " ret=%d", v, n, got, gl);
                    break;
                }
            }
        }
        vh_count("calls", 2 * sizeof NS / sizeof *NS);
    }
    if (varintTaggedGet64ReturnValue(dst) != v) {
        FAILV("tagged.Get64ReturnValue", "roundtrip_mismatch", "v=%" PRIu64 " got=%" PRIu64, v, varintTaggedGet64ReturnValue(dst));
    }
    got = varintTaggedGet64Quick_(dst);
    if (got != v) {
        FAILV("tagged.Get64Quick_", "roundtrip_mismatch", "v=%" PRIu64 " got=%" PRIu64, v, got);
    }
    if ((int)varintTaggedLenQuick(v) != len) {
        FAILV("tagged.LenQuick", "length_disagreement", "v=%" PRIu64 " got=%d want=%d", v, (int)varintTaggedLenQuick(v), len);
    }
    /* fixed widths: 2 iff 240..2287, 3 iff 2288..67823, 1 iff <=240, w>=4 iff v < 2^(8(w-1)) */
    for (int w = 1; w <= 9; w++) {
        int legal = (w == 1) ? v <= 240 : (w == 2) ? (v >= 240 && v <= 2287) : (w == 3) ? (v >= 2288 && v <= 67823) : (w == 9 || v < (1ULL << (8 * (w - 1))));
        if (!legal) {
            continue;
        }
        for (int form = 0; form < 2; form++) {
            for (int bgi = 0; bgi < 2; bgi++) {
                uint8_t bg = bgi ? 0x5a : 0xa5;
                memset(PB, bg, sizeof PB);
                int r = w;
                if (form == 0) {
                    r = (int)varintTaggedPut64FixedWidth(dst, v, (varintWidth)w);
                } else {
                    g_nev = 0;
                    varintTaggedPut64FixedWidthQuick_(dst, ev_once(v), w);
                }
                const char *api = form ? "tagged.Put64FixedWidthQuick_" : "tagged.Put64FixedWidth";
                if (r != w) {
                    FAILV(api, "length_disagreement", "v=%" PRIu64 " w=%d ret=%d", v, w, r);
                }
                if (!pb_clean(dst, w, bg)) {
                    FAILV(api, "stray_write", "v=%" PRIu64 " w=%d buf=%s", v, w, vh_hex(PB, sizeof PB));
                }
                got = ~v;
                gl = (int)varintTaggedGet64(dst, &got);
                if (gl != w || got != v || (int)varintTaggedGetLen(dst) != w || (int)varintTaggedGetLenQuick_(dst) != w) {
                    FAILV(api, "roundtrip_mismatch", "v=%" PRIu64 " w=%d got=%" PRIu64 " len=%d bytes=%s", v, w, got, gl, vh_hex(dst, (size_t)w));
                }
                vh_count("calls", 4);
            }
        }
        {
            char ck[64];
            snprintf(ck, sizeof ck, "tagged/fixedwidth/w%d/min%d", w, len);
            vh_class(ck, "v=%" PRIu64, v);
        }
    }
    if (v <= UINT32_MAX) {
        memset(PB, 0xa5, sizeof PB);
        int r = (int)varintTaggedPutVarint32(dst, (uint32_t)v);
        uint32_t g32 = ~(uint32_t)v;
        gl = (int)varintTaggedGetVarint32(dst, &g32);
        if (r != len || gl != len || g32 != (uint32_t)v || !pb_clean(dst, len, 0xa5)) {
            FAILV("tagged.PutVarint32/GetVarint32", "roundtrip_mismatch", "v=%" PRIu64 " put=%d get=%d got=%u", v, r, gl, g32);
        }
        vh_count("calls", 2);
    }
    vh_count("calls", 5);
}

static void full_external(int fam, uint64_t v) {
    int be = fam == F_EXT_BE;
    int minw = ref_bytes_of(v);
    uint8_t *dst = PB + 24;
    uint8_t ref[8];
    for (int w = minw; w <= 8; w++) {
        if (be) {
            ref_be(ref, v, w);
        } else {
            ref_le(ref, v, w);
        }
        int nforms = be ? 2 : 3;
        for (int form = 0; form < nforms; form++) {
            if (form == 2 && w == 1) {
                /* QuickMedium_ delegates width 1 to the function: still legal */
            }
            for (int bgi = 0; bgi < 2; bgi++) {
                uint8_t bg = bgi ? 0x5a : 0xa5;
                memset(PB, bg, sizeof PB);
                const char *api;
                if (be) {
                    if (form == 0) {
                        varintExternalBigEndianPutFixedWidth(dst, v, (varintWidth)w);
                        api = "externalBE.PutFixedWidth";
                    } else {
                        varintExternalBigEndianPutFixedWidthQuick_(dst, v, w);
                        api = "externalBE.PutFixedWidthQuick_";
                    }
                } else {
                    if (form == 0) {
                        varintExternalPutFixedWidth(dst, v, (varintWidth)w);
                        api = "externalLE.PutFixedWidth";
                    } else if (form == 1) {
                        varintExternalPutFixedWidthQuick_(dst, v, w);
                        api = "externalLE.PutFixedWidthQuick_";
                    } else {
                        varintExternalPutFixedWidthQuickMedium_(dst, v, w);
                        api = "externalLE.PutFixedWidthQuickMedium_";
                    }
                }
                if (!pb_clean(dst, w, bg)) {
                    FAILV(api, "stray_write", "v=%" PRIu64 " w=%d buf=%s", v, w, vh_hex(PB, sizeof PB));
                }
                if (P_C04 && memcmp(dst, ref, (size_t)w) != 0) {
                    FAILV(api, "bytes_differ_from_reference", "v=%" PRIu64 " w=%d lib=%s ref=%s", v, w, vh_hex(dst, (size_t)w), vh_hex(ref, (size_t)w));
                }
                /* all readers at this width */
                uint64_t g0, g1 = ~v, g2 = ~v, g3 = ~v;
                if (be) {
                    g0 = varintExternalBigEndianGet(dst, (varintWidth)w);
                    varintExternalBigEndianGetQuick_(dst, w, g1);
                    g2 = g3 = v;
                } else {
                    g0 = varintExternalGet(dst, (varintWidth)w);
                    varintExternalGetQuick_(dst, w, g1);
                    varintExternalGetQuickMedium_(dst, w, g2);
                    g3 = varintExternalGetQuickMediumReturnValue_(dst, w);
                }
                if (g0 != v || g1 != v || g2 != v || g3 != v) {
                    FAILV(be ? "externalBE.Get*" : "externalLE.Get*", "roundtrip_mismatch",
                          "v=%" PRIu64 " w=%d Get=%" PRIu64 " Quick=%" PRIu64 " QuickMedium=%" PRIu64 " QMReturn=%" PRIu64, v, w, g0, g1, g2, g3);
                }
                vh_count("calls", 5);
            }
        }
        /* exact-size guard buffer for function forms */
        uint8_t *g = vh_gb_get(0, (size_t)w, 0xee);
        if (be) {
            varintExternalBigEndianPutFixedWidth(g, v, (varintWidth)w);
            if (varintExternalBigEndianGet(g, (varintWidth)w) != v) {
                FAILV("externalBE.Get", "roundtrip_mismatch", "guard v=%" PRIu64 " w=%d", v, w);
            }
        } else {
            varintExternalPutFixedWidth(g, v, (varintWidth)w);
            if (varintExternalGet(g, (varintWidth)w) != v) {
                FAILV("externalLE.Get", "roundtrip_mismatch", "guard v=%" PRIu64 " w=%d", v, w);
            }
        }
        if (!vh_gb_canary_ok(0)) {
            FAILV(be ? "externalBE.PutFixedWidth" : "externalLE.PutFixedWidth", "stray_write", "guard canary v=%" PRIu64 " w=%d", v, w);
        }
        char ck[64];
        snprintf(ck, sizeof ck, "%s/fixedwidth/w%d/min%d", FNAME[fam], w, minw);
        vh_class(ck, "v=%" PRIu64, v);
    }
    if (!be && v <= (uint64_t)INT64_MAX) {
        int a = (int)varintExternalSignedEncoding((int64_t)v);
        int b = (int)varintExternalLen(v);
        if (a != minw || b != minw) {
            FAILV("externalLE.SignedEncoding/Len", "length_disagreement", "v=%" PRIu64 " signed=%d len=%d want=%d", v, a, b, minw);
        }
        vh_count("calls", 2);
    }
}

static void full_chained(uint64_t v) {
    const int fam = F_CHAINED;
    uint8_t *dst = PB + 24;
    if (v <= UINT32_MAX) {
        uint8_t r[16];
        int len = ref_chained(v, r);
        for (int bgi = 0; bgi < 2; bgi++) {
            uint8_t bg = bgi ? 0x5a : 0xa5;
            memset(PB, bg, sizeof PB);
            uint32_t v32 = (uint32_t)v;
            int pl = (int)varintChained_putVarint32(dst, v32);
            if (pl != len || !pb_clean(dst, len, bg) || (P_C04 && memcmp(dst, r, (size_t)len))) {
                FAILV("chained._putVarint32", "roundtrip_mismatch", "v=%" PRIu64 " len=%d want=%d bytes=%s", v, pl, len, vh_hex(dst, 10));
            }
            uint32_t g = ~v32;
            int gl = (int)varintChained_getVarint32(dst, g);
            if (gl != len || g != v32) {
                FAILV("chained._getVarint32", "roundtrip_mismatch", "v=%" PRIu64 " got=%u len=%d", v, g, gl);
            }
            if (v >= 0x80) { /* function form assumes the one-byte case was handled by the macro */
                g = ~v32;
                gl = (int)varintChainedGetVarint32(dst, &g);
                if (gl != len || g != v32) {
                    FAILV("chained.GetVarint32", "roundtrip_mismatch", "v=%" PRIu64 " got=%u len=%d", v, g, gl);
                }
            }
            vh_count("calls", 3);
        }
    }
}

static void full_csimple(uint64_t v) {
    const int fam = F_CSIMPLE;
    uint8_t *dst = PB + 24;
    if (v <= UINT32_MAX) {
        uint8_t r[16];
        int len = ref_chained_simple(v, r);
        for (int bgi = 0; bgi < 2; bgi++) {
            uint8_t bg = bgi ? 0x5a : 0xa5;
            memset(PB, bg, sizeof PB);
            int pl = (int)varintChainedSimpleEncode32(dst, (uint32_t)v);
            if (pl != len || !pb_clean(dst, len, bg) || (P_C04 && memcmp(dst, r, (size_t)len))) {
                FAILV("chainedSimple.Encode32", "roundtrip_mismatch", "v=%" PRIu64 " len=%d want=%d bytes=%s", v, pl, len, vh_hex(dst, 10));
            }
            uint32_t g = ~(uint32_t)v;
            int gl = (int)varintChainedSimpleDecode32(dst, &g);
            uint32_t g2 = ~(uint32_t)v;
            int gl2 = (int)varintChainedSimpleDecode32Fallback(dst, &g2);
            uint64_t g3 = ~v;
            int gl3 = (int)varintChainedSimpleDecode64(dst, &g3);
            if (gl != len || g != (uint32_t)v || gl2 != len || g2 != (uint32_t)v || gl3 != len || g3 != v) {
                FAILV("chainedSimple.Decode32*", "roundtrip_mismatch", "v=%" PRIu64 " d32=%u/%d fb=%u/%d d64=%" PRIu64 "/%d", v, g, gl, g2, gl2, g3, gl3);
            }
            vh_count("calls", 4);
        }
    }
}

/* reversed forms of split / splitFull / splitFullNoZero */
#define REV_BODY(PUTF, PUTR, GETR, GETLEN, QLEN, REFENC, VARTAG)                                                   \
    do {                                                                                                           \
        uint8_t fwd[16], rev[16];                                                                                  \
        int rl = REFENC(v, fwd);                                                                                   \
        ref_split_reverse(fwd, rl, (fwd[0] & 0xc0) == (VARTAG), rev);                                              \
        for (int bgi = 0; bgi < 2; bgi++) {                                                                        \
            uint8_t bg = bgi ? 0x5a : 0xa5;                                                                        \
            /* forward-pointer put: dst is the lowest address */                                                   \
            memset(PB, bg, sizeof PB);                                                                             \
            uint8_t *dst = PB + 24;                                                                                \
            int len = 0;                                                                                           \
            g_nev = 0;                                                                                             \
            PUTF(dst, len, ev_once(v));                                                                                     \
            if (len != rl || !pb_clean(dst, len, bg)) {                                                            \
                FAILV(api_f, "stray_write", "v=%" PRIu64 " len=%d want=%d buf=%s", v, len, rl, vh_hex(PB, sizeof PB)); \
            } else if (P_C04 && memcmp(dst, rev, (size_t)rl)) {                                                    \
                FAILV(api_f, "bytes_differ_from_reference", "v=%" PRIu64 " lib=%s ref=%s", v, vh_hex(dst, (size_t)rl), vh_hex(rev, (size_t)rl)); \
            }                                                                                                      \
            uint8_t *last = dst + len - 1;                                                                         \
            uint64_t got = ~v;                                                                                     \
            int gl = 0;                                                                                            \
            GETR(last, gl, got);                                                                                   \
            int sl = 0;                                                                                            \
            GETLEN(last, sl);                                                                                      \
            int ql = (int)QLEN(last);                                                                              \
            if (got != v || gl != rl || sl != rl || ql != rl) {                                                    \
                FAILV(api_g, "roundtrip_mismatch", "v=%" PRIu64 " got=%" PRIu64 " len=%d stored=%d quick=%d want=%d", v, got, gl, sl, ql, rl); \
            }                                                                                                      \
            /* reversed-pointer put: dst is the highest address (type byte) */                                     \
            memset(PB, bg, sizeof PB);                                                                             \
            uint8_t *hi = PB + 40;                                                                                 \
            len = 0;                                                                                               \
            PUTR(hi, len, v);                                                                                      \
            if (len != rl || !pb_clean(hi - (len - 1), len, bg)) {                                                 \
                FAILV(api_r, "stray_write", "v=%" PRIu64 " len=%d want=%d buf=%s", v, len, rl, vh_hex(PB, sizeof PB)); \
            } else if (P_C04 && memcmp(hi - (rl - 1), rev, (size_t)rl)) {                                          \
                FAILV(api_r, "bytes_differ_from_reference", "v=%" PRIu64 " lib=%s ref=%s", v, vh_hex(hi - (rl - 1), (size_t)rl), vh_hex(rev, (size_t)rl)); \
            }                                                                                                      \
            got = ~v;                                                                                              \
            gl = 0;                                                                                                \
            GETR(hi, gl, got);                                                                                     \
            if (got != v || gl != rl) {                                                                            \
                FAILV(api_g, "roundtrip_mismatch", "reversed put: v=%" PRIu64 " got=%" PRIu64 " len=%d want=%d", v, got, gl, rl); \
            }                                                                                                      \
            vh_count("calls", 6);                                                                                  \
        }                                                                                                          \
        /* exact-size guard buffers: forward put must not write past len, reversed get must not read below */      \
        {                                                                                                          \
            uint8_t *g = vh_gb_get(0, (size_t)rl, 0xee);                                                           \
            int len = 0;                                                                                           \
            PUTF(g, len, v);                                                                                       \
            uint64_t got = ~v;                                                                                     \
            int gl = 0;                                                                                            \
            GETR(g + rl - 1, gl, got);                                                                             \
            if (got != v || gl != rl || !vh_gb_canary_ok(0)) {                                                     \
                FAILV(api_g, "roundtrip_mismatch", "guard: v=%" PRIu64 " got=%" PRIu64 " len=%d canary=%d", v, got, gl, vh_gb_canary_ok(0)); \
            }                                                                                                      \
        }                                                                                                          \
    } while (0)

static void full_split_rev(int fam, uint64_t v) {
    const char *api_f, *api_r, *api_g;
    if (fam == F_SPLIT) {
        api_f = "split.ReversedPutForward_";
        api_r = "split.ReversedPutReversed_";
        api_g = "split.ReversedGet_";
        REV_BODY(varintSplitReversedPutForward_, varintSplitReversedPutReversed_, varintSplitReversedGet_, varintSplitGetLen_, varintSplitGetLenQuick_, ref_split, 0x80);
    } else if (fam == F_SPLITFULL) {
        api_f = "splitFull.ReversedPutForward_";
        api_r = "splitFull.ReversedPutReversed_";
        api_g = "splitFull.ReversedGet_";
        REV_BODY(varintSplitFullReversedPutForward_, varintSplitFullReversedPutReversed_, varintSplitFullReversedGet_, varintSplitFullGetLen_, varintSplitFullGetLenQuick_, ref_split_full, 0xc0);
    } else if (fam == F_SPLITNZ) {
        api_f = "splitFullNoZero.ReversedPutForward_";
        api_r = "splitFullNoZero.ReversedPutReversed_";
        api_g = "splitFullNoZero.ReversedGet_";
        REV_BODY(varintSplitFullNoZeroReversedPutForward_, varintSplitFullNoZeroReversedPutReversed_, varintSplitFullNoZeroReversedGet_, varintSplitFullNoZeroGetLen_, varintSplitFullNoZeroGetLenQuick_, ref_split_full_nz, 0xc0);
    }
}

static void full_eval(int fam, uint64_t v) {
    uint8_t r[16];
    int len = ref_encode(fam, v, r);
    /* every alignment: start offsets 0..15 of a 64-byte aligned buffer */
    for (int off = 0; off < 16; off++) {
        core_eval(fam, v, off);
        vh_count("calls", 8);
    }
    check_guard_put(fam, v, len);
    vh_count("calls", 4);
    switch (fam) {
    case F_TAGGED:
        full_tagged(v);
        break;
    case F_EXT_LE:
    case F_EXT_BE:
        full_external(fam, v);
        break;
    case F_CHAINED:
        full_chained(v);
        break;
    case F_CSIMPLE:
        full_csimple(v);
        break;
    case F_SPLIT:
    case F_SPLITFULL:
    case F_SPLITNZ:
        full_split_rev(fam, v);
        break;
    }
    char ck[64];
    snprintf(ck, sizeof ck, "%s/full/len%d", FNAME[fam], len);
    vh_class(ck, "v=%" PRIu64 " bytes=%s", v, vh_hex(r, (size_t)len));
}

/* ------------------------------------------------------------------ signed helpers */
static void signed_helpers(const u64vec *V) {
    if (!vh_section_begin("signed_helpers")) {
        return;
    }
    static const int bits[4] = {24, 40, 48, 56};
    const int fam = 0;
    for (int bi = 0; bi < 4; bi++) {
        int b = bits[bi];
        uint64_t lim = 1ULL << (b - 1); /* |v| < 2^(b-1) */
        /* candidate magnitudes: alphabet values below lim, plus all magnitudes for 24 bits (thorough) */
        uint64_t exh = (b == 24 && vh_thorough) ? lim : (1ULL << 16);
        if (exh > lim) {
            exh = lim;
        }
        size_t total = (size_t)exh + V->n;
        for (size_t i = 0; i < total; i++) {
            uint64_t m = i < exh ? i : V->v[i - exh];
            if (m >= lim) {
                continue;
            }
            if (!vh_case()) {
                continue;
            }
            for (int neg = 0; neg < 2; neg++) {
                int64_t v = neg ? -(int64_t)m : (int64_t)m;
                int64_t got;
                uint64_t stored;
                if (b == 24) {
                    int32_t x = (int32_t)v;
                    varintPrepareSigned32to24_(x);
                    stored = (uint32_t)x;
                    int32_t y = x;
                    varintRestoreSigned24to32_(y);
                    got = y;
                } else {
                    int64_t x = v;
                    if (b == 40) {
                        varintPrepareSigned64to40_(x);
                    } else if (b == 48) {
                        varintPrepareSigned64to48_(x);
                    } else {
                        varintPrepareSigned64to56_(x);
                    }
                    stored = (uint64_t)x;
                    int64_t y = x;
                    if (b == 40) {
                        varintRestoreSigned40to64_(y);
                    } else if (b == 48) {
                        varintRestoreSigned48to64_(y);
                    } else {
                        varintRestoreSigned56to64_(y);
                    }
                    got = y;
                }
                char api[40];
                snprintf(api, sizeof api, "signed%d", b);
                if (got != v) {
                    vh_fail(api, "roundtrip_mismatch", (neg && m) ? "negative" : "untagged", "v=%" PRId64 " stored=0x%" PRIx64 " got=%" PRId64, v, stored, got);
                } else if (b < 64 && (stored >> b) != 0) {
                    /* the prepared value must fit the field so that it can be stored in b/8 bytes */
                    vh_fail(api, "field_overflow", (neg && m) ? "negative" : "untagged", "v=%" PRId64 " stored=0x%" PRIx64 " does not fit %d bits", v, stored, b);
                } else {
                    /* store through the external varint at that width and read back */
                    uint8_t buf[8];
                    varintExternalPutFixedWidth(buf, stored, (varintWidth)(b / 8));
                    uint64_t back = varintExternalGet(buf, (varintWidth)(b / 8));
                    if (back != stored) {
                        vh_fail(api, "roundtrip_mismatch", "untagged", "stored=0x%" PRIx64 " back=0x%" PRIx64, stored, back);
                    }
                }
                vh_count("calls", 4);
            }
            vh_count("cases", 1);
            char ck[64];
            snprintf(ck, sizeof ck, "signed%d/magbytes%d", b, ref_bytes_of(m));
            vh_class(ck, "m=%" PRIu64, m);
        }
    }
}

/* ------------------------------------------------------------------ wide external (9..16 byte) forms
 * varintExternalPutFixedWidthBig / varintBigExternalGet store a 128-bit value in 1..16 bytes, little-endian. */
static void wide_external(const u64vec *V) {
    if (!vh_section_begin("external_wide")) {
        return;
    }
    /* reduced alphabet: every value of V whose index is a multiple of the stride, plus the extremes */
    uint64_t R[160];
    size_t nr = 0, stride = V->n / 120 + 1;
    for (size_t i = 0; i < V->n && nr < 150; i += stride) {
        R[nr++] = V->v[i];
    }
    R[nr++] = 0;
    R[nr++] = 1;
    R[nr++] = UINT64_MAX;
    R[nr++] = 1ULL << 63;
    for (size_t hi = 0; hi < nr; hi++) {
        if (!vh_case()) {
            continue;
        }
        for (size_t lo = 0; lo < nr; lo++) {
            __uint128_t v = ((__uint128_t)R[hi] << 64) | R[lo];
            int need = R[hi] ? 8 + ref_bytes_of(R[hi]) : (R[lo] ? ref_bytes_of(R[lo]) : 1);
            for (int w = need; w <= 16; w++) {
                for (int bg = 0; bg < 2; bg++) {
                    uint8_t *g = vh_gb_get(0, (size_t)w, bg ? 0xee : 0x11);
                    __uint128_t got = 0;
                    if (SB_ENTER()) {
                        varintExternalPutFixedWidthBig(g, v, (varintWidth)w);
                        got = varintBigExternalGet(g, (varintWidth)w);
                        SB_LEAVE();
                    } else {
                        vh_fail("externalLE.PutFixedWidthBig", vh_fault_name(), "untagged", "hi=%" PRIu64 " lo=%" PRIu64 " w=%d %s", R[hi], R[lo], w, vh_fault_msg);
                        continue;
                    }
                    int okbytes = 1;
                    for (int k = 0; k < w; k++) {
                        okbytes &= g[k] == (uint8_t)(v >> (8 * k));
                    }
                    if (!okbytes || !vh_gb_canary_ok(0)) {
                        vh_fail("externalLE.PutFixedWidthBig", okbytes ? "stray_write" : "bytes_differ_from_reference", "untagged", "hi=%" PRIu64 " lo=%" PRIu64 " w=%d canary_ok=%d", R[hi], R[lo], w, vh_gb_canary_ok(0));
                    }
                    if (got != v) {
                        vh_fail("externalLE.BigGet", "roundtrip_mismatch", "untagged", "hi=%" PRIu64 " lo=%" PRIu64 " w=%d got hi=%" PRIu64 " lo=%" PRIu64, R[hi], R[lo], w, (uint64_t)(got >> 64), (uint64_t)got);
                    }
                    vh_count("calls", 2);
                }
            }
        }
        vh_count("cases", nr);
        char ck[64];
        snprintf(ck, sizeof ck, "externalWide/hibytes%d", R[hi] ? ref_bytes_of(R[hi]) : 0);
        vh_class(ck, "hi=%" PRIu64, R[hi]);
    }
}

#ifndef NO_HYGIENE
#define HYG_SCALAR 1
#include "hygiene.h"
#include "hygiene_gen.h"
#endif

/* ------------------------------------------------------------------ C01 / C04 driver */
static uint64_t prefix_bits(void) {
    const char *e = getenv("VERIF_PREFIX_BITS");
    if (e) {
        return (uint64_t)atoi(e);
    }
    return vh_thorough ? 32 : 22;
}

static void run_c01_c04(void) {
    u64vec V = {0};
    alpha_v64(&V, vh_thorough);
    vh_infostr("alphabet_size", "%zu", V.n);
    uint64_t P = prefix_bits();
    vh_infostr("prefix_bits", "%" PRIu64, P);
    const uint64_t BLK = 1u << 12;

    for (int fam = 0; fam < F_N; fam++) {
        char sec[64];
        /* 1. exhaustive prefix, core entry points, monotone length on every adjacent pair */
        snprintf(sec, sizeof sec, "prefix/%s", FNAME[fam]);
        if (vh_section_begin(sec)) {
            uint64_t nblk = (1ULL << P) / BLK;
            int complete = 1;
            for (uint64_t b = 0; b < nblk; b++) {
                if (!vh_case()) {
                    continue;
                }
                if (vh_deadline_now()) {
                    complete = 0;
                    break;
                }
                uint64_t lo = b * BLK, hi = lo + BLK;
                if (SB_ENTER()) {
                    int prev = -1;
                    uint64_t start = lo ? lo - 1 : 0; /* overlap one value so that block edges are adjacent pairs too */
                    for (uint64_t v = start; v < hi; v++) {
                        if (fam == F_SPLITNZ && v == 0) {
                            continue;
                        }
                        cur_v = v;
                        int len = core_eval(fam, v, (int)(v & 15));
                        if (prev >= 0 && len < prev && !shrink_allowed(fam, v)) {
                            char api[64];
                            snprintf(api, sizeof api, "%s.put", FNAME[fam]);
                            vh_fail(api, "length_not_monotone", "untagged", "len(%" PRIu64 ")=%d > len(%" PRIu64 ")=%d", v - 1, prev, v, len);
                        }
                        prev = len;
                    }
                    SB_LEAVE();
                } else {
                    char api[64];
                    snprintf(api, sizeof api, "%s.%s", FNAME[fam], cur_api);
                    vh_fail(api, vh_fault_name(), "untagged", "v=%" PRIu64 " %s", (uint64_t)cur_v, vh_fault_msg);
                }
                vh_count("cases", BLK);
                vh_count("calls", BLK * 8);
            }
            char fl[64];
            snprintf(fl, sizeof fl, "prefix_2^%" PRIu64 "_%s", P, FNAME[fam]);
            vh_flag(fl, complete);
        }
        /* 2. alphabet, all entry points, all alignments, guard buffers; adjacent pairs (v, v+1) */
        snprintf(sec, sizeof sec, "alphabet/%s", FNAME[fam]);
        if (vh_section_begin(sec)) {
            int complete = 1;
            uint64_t fullcap = vh_thorough ? UINT64_MAX : UINT64_MAX;
            (void)fullcap;
            for (size_t i = 0; i < V.n; i++) {
                if (!vh_case()) {
                    continue;
                }
                if (vh_deadline_hit()) {
                    complete = 0;
                    break;
                }
                uint64_t v = V.v[i];
                if (fam == F_SPLITNZ && v == 0) {
                    continue;
                }
                cur_v = v;
                if (SB_ENTER()) {
                    full_eval(fam, v);
                    /* adjacent pair */
                    if (v != UINT64_MAX) {
                        int l0 = fam_len(fam, v), l1 = fam_len(fam, v + 1);
                        uint8_t a[16], b2[16];
                        int p0 = fam_put(fam, a, v), p1 = fam_put(fam, b2, v + 1);
                        if ((l1 < l0 || p1 < p0) && !shrink_allowed(fam, v + 1)) {
                            char api[64];
                            snprintf(api, sizeof api, "%s.put", FNAME[fam]);
                            vh_fail(api, "length_not_monotone", "untagged", "len(%" PRIu64 ")=%d/%d > len(v+1)=%d/%d", v, l0, p0, l1, p1);
                        }
                    }
                    SB_LEAVE();
                } else {
                    char api[64];
                    snprintf(api, sizeof api, "%s.%s", FNAME[fam], cur_api);
                    vh_fail(api, vh_fault_name(), "untagged", "v=%" PRIu64 " slot=%d off=%ld %s", v, vh_fault_slot, vh_fault_off, vh_fault_msg);
                }
                vh_count("cases", 1);
            }
            char fl[64];
            snprintf(fl, sizeof fl, "alphabet_%s", FNAME[fam]);
            vh_flag(fl, complete);
        }
        /* 3. placement: the bytes written for a value do not depend on WHERE they are written - every start offset
         * 16..143 of a 64-byte-aligned buffer (all residues modulo 4, 8, 16 and 64, so every way an encoding and each
         * of its words can straddle such a boundary), neighbours intact; per byte-length class the smallest and the
         * largest value and one whose bytes are all different */
        snprintf(sec, sizeof sec, "placements/%s", FNAME[fam]);
        if (vh_section_begin(sec)) {
            uint64_t PV[40];
            size_t npv = 0;
            PV[npv++] = 0;
            for (int b = 1; b <= 8; b++) {
                uint64_t hi = b == 8 ? ~0ULL : ((1ULL << (8 * b)) - 1);
                PV[npv++] = hi;
                PV[npv++] = (hi >> 8) + 1;
                PV[npv++] = 0x0102030405060708ULL >> (8 * (8 - b));
                PV[npv++] = 0xF1E2D3C4B5A69788ULL >> (8 * (8 - b));
            }
            PV[npv++] = 240;
            PV[npv++] = 2288;
            PV[npv++] = 67824;
            PV[npv++] = 5000000000ULL;
            ce_buf = PBW;
            ce_size = sizeof PBW;
            for (int off = 0; off < 128; off++) {
                if (!vh_case()) {
                    continue;
                }
                if (SB_ENTER()) {
                    for (size_t i = 0; i < npv; i++) {
                        if (fam == F_SPLITNZ && PV[i] == 0) {
                            continue;
                        }
                        cur_v = PV[i];
                        core_eval(fam, PV[i], off);
                    }
                    SB_LEAVE();
                } else {
                    char api[64];
                    snprintf(api, sizeof api, "%s.%s", FNAME[fam], cur_api);
                    vh_fail(api, vh_fault_name(), "untagged", "v=%" PRIu64 " placement offset %d %s", (uint64_t)cur_v, off, vh_fault_msg);
                }
                vh_count("cases", npv);
                vh_count("calls", npv * 8);
            }
            ce_buf = PB;
            ce_size = sizeof PB;
            char ck[64];
            snprintf(ck, sizeof ck, "%s/placements", FNAME[fam]);
            vh_class(ck, "%zu values x 128 start offsets", npv);
        }
    }
    if (P_C01) {
        signed_helpers(&V);
        wide_external(&V);
#ifndef NO_HYGIENE
        if (vh_section_begin("macro_hygiene") && vh_case()) {
            hygiene_scalar();
            vh_count("cases", 1);
        }
#endif
    }
    if (P_C04) {
        /* the bit writer / reader themselves (exposed for advanced use): every start position 0..71 x width 1..64 x
         * value alphabet against an MSB-first bit-array model */
        if (vh_section_begin("bit_io")) {
            for (size_t start = 0; start < 72; start++) {
                for (size_t nb = 1; nb <= 64; nb++) {
                    if (!vh_case()) {
                        continue;
                    }
                    uint64_t mask = nb == 64 ? UINT64_MAX : ((1ULL << nb) - 1);
                    uint64_t vals[8] = {0, 1, mask, mask >> 1, 1ULL << (nb - 1), 0x5555555555555555ULL & mask, 0xAAAAAAAAAAAAAAAAULL & mask, 0x0123456789abcdefULL & mask};
                    for (int vi = 0; vi < 8; vi++) {
                        uint8_t buf[40], model[40];
                        memset(buf, 0xff, sizeof buf);
                        memset(model, 0, sizeof model);
                        varintBitWriter w;
                        varintBitWriterInit(&w, buf, 32);
                        /* `start` leading bits: alternating pattern written in chunks */
                        size_t left = start, pos = 0;
                        while (left) {
                            size_t c = left > 13 ? 13 : left;
                            varintBitWriterWrite(&w, 0x1555 & ((1ULL << c) - 1), c);
                            for (size_t k = 0; k < c; k++) {
                                if (((0x1555 & ((1ULL << c) - 1)) >> (c - 1 - k)) & 1) {
                                    model[pos / 8] |= (uint8_t)(1u << (7 - pos % 8));
                                }
                                pos++;
                            }
                            left -= c;
                        }
                        varintBitWriterWrite(&w, vals[vi], nb);
                        for (size_t k = 0; k < nb; k++) {
                            if ((vals[vi] >> (nb - 1 - k)) & 1) {
                                model[pos / 8] |= (uint8_t)(1u << (7 - pos % 8));
                            }
                            pos++;
                        }
                        size_t bytes = varintBitWriterBytes(&w);
                        int bad = bytes != (pos + 7) / 8 || w.bitPos != pos || memcmp(buf, model, 32) != 0;
                        for (int k = 32; k < 40; k++) {
                            bad |= buf[k] != 0xff; /* Init clears exactly `capacity` bytes */
                        }
                        varintBitReader r;
                        varintBitReaderInit(&r, buf, pos);
                        left = start;
                        while (left) {
                            size_t c = left > 11 ? 11 : left;
                            (void)varintBitReaderRead(&r, c);
                            left -= c;
                        }
                        int hm1 = varintBitReaderHasMore(&r, nb), hm2 = varintBitReaderHasMore(&r, nb + 1);
                        uint64_t got = varintBitReaderRead(&r, nb);
                        int hm3 = varintBitReaderHasMore(&r, 1);
                        uint64_t past = varintBitReaderRead(&r, 5); /* beyond totalBits: reads as 0 */
                        if (bad || got != vals[vi] || !hm1 || hm2 || hm3 || past != 0) {
                            vh_fail("elias.BitWriter/BitReader", bad ? "bytes_differ_from_reference" : "roundtrip_mismatch", "untagged", "start bit %zu width %zu value 0x%" PRIx64 ": bytes=%zu bitPos=%zu read=0x%" PRIx64 " hasMore %d/%d/%d past=%" PRIu64, start,
                                    nb, vals[vi], bytes, w.bitPos, got, hm1, hm2, hm3, past);
                        }
                        vh_count("calls", 8);
                    }
                    vh_count("cases", 1);
                }
            }
            vh_class("bit_io", "72 start positions x 64 widths x 8 values");
        }
        /* reserve-then-fill: a field of h zero bits is written at bit s, more bits are appended behind it, then the
         * caller moves the (public) position back, writes the field's value and restores the position - the usual way
         * to emit a count in front of its payload. A write owns exactly its own bits: the stream must equal the one
         * written in order. */
        if (vh_section_begin("bit_io_reserved")) {
            static const size_t TAILS[5] = {1, 7, 8, 9, 23};
            for (size_t s = 0; s < 16; s++) {
                for (size_t h = 1; h <= 64; h++) {
                    if (!vh_case()) {
                        continue;
                    }
                    uint64_t mask = h == 64 ? UINT64_MAX : ((1ULL << h) - 1);
                    uint64_t hv[4] = {mask, 1, 1ULL << (h - 1), 0x5555555555555555ULL & mask};
                    for (int ti = 0; ti < 5; ti++) {
                        for (int vi = 0; vi < 4; vi++) {
                            uint8_t a[40], b[40];
                            varintBitWriter wa, wb;
                            varintBitWriterInit(&wa, a, sizeof a);
                            varintBitWriterInit(&wb, b, sizeof b);
                            uint64_t lead = 0x2AAA & ((1ULL << s) - 1), tail = (1ULL << TAILS[ti]) - 1;
                            /* in order */
                            varintBitWriterWrite(&wa, lead, s);
                            varintBitWriterWrite(&wa, hv[vi], h);
                            varintBitWriterWrite(&wa, tail, TAILS[ti]);
                            size_t ga = varintEliasGammaEncode(&wa, 5 + (uint64_t)vi);
                            /* reserve, append, fill */
                            varintBitWriterWrite(&wb, lead, s);
                            varintBitWriterWrite(&wb, 0, h);
                            varintBitWriterWrite(&wb, tail, TAILS[ti]);
                            size_t gb = varintEliasGammaEncode(&wb, 5 + (uint64_t)vi);
                            size_t end = wb.bitPos;
                            wb.bitPos = s;
                            varintBitWriterWrite(&wb, hv[vi], h);
                            int posok = wb.bitPos == s + h;
                            wb.bitPos = end;
                            if (!posok || ga != gb || wa.bitPos != end || memcmp(a, b, sizeof a) != 0) {
                                size_t at = 0;
                                while (at < sizeof a && a[at] == b[at]) {
                                    at++;
                                }
                                vh_fail("elias.BitWriter/BitReader", "bytes_differ_from_reference", "untagged", "field of %zu bits reserved at bit %zu, %zu more bits and one gamma code appended, then the field filled with 0x%" PRIx64 ": byte %zu is %02x, written in order it is %02x", h, s,
                                        TAILS[ti], hv[vi], at, at < sizeof a ? b[at] : 0, at < sizeof a ? a[at] : 0);
                            }
                            vh_count("calls", 10);
                        }
                    }
                    vh_count("cases", 1);
                }
            }
            vh_class("bit_io_reserved", "16 positions x 64 field widths x 5 tails x 4 values");
        }
        /* producer and consumer on ONE buffer: a long-lived reader follows a writer that keeps appending into the byte
         * the reader is positioned in (chunk sizes that are not byte multiples) */
        if (vh_section_begin("bit_io_interleaved")) {
            static const uint8_t PATS[6][6] = {{3, 5, 1, 7, 2, 6}, {1, 1, 1, 1, 1, 1}, {7, 9, 13, 3, 33, 5}, {63, 1, 64, 7, 2, 11}, {4, 4, 12, 20, 3, 29}, {5, 3, 5, 3, 5, 3}};
            for (int pi = 0; pi < 6; pi++) {
                for (int vsel = 0; vsel < 3; vsel++) {
                    if (!vh_case()) {
                        continue;
                    }
                    uint8_t buf[160];
                    varintBitWriter w;
                    varintBitWriterInit(&w, buf, sizeof buf);
                    varintBitReader r;
                    varintBitReaderInit(&r, buf, 0);
                    size_t total = 0;
                    for (int round = 0; round < 18; round++) {
                        size_t nb = PATS[pi][round % 6];
                        uint64_t mask = nb == 64 ? UINT64_MAX : ((1ULL << nb) - 1);
                        uint64_t v = (vsel == 0 ? mask : vsel == 1 ? (0x9E3779B97F4A7C15ULL >> (round & 7)) : (uint64_t)(round + 27)) & mask;
                        varintBitWriterWrite(&w, v, nb);
                        total += nb;
                        r.totalBits = total; /* the consumer learns that more bits are available */
                        uint64_t got = varintBitReaderRead(&r, nb);
                        if (got != v) {
                            vh_fail("elias.BitWriter/BitReader", "roundtrip_mismatch", "untagged", "interleaved writer / reader on one buffer, chunk pattern %d, round %d: wrote 0x%" PRIx64 " (%zu bits), the long-lived reader returned 0x%" PRIx64, pi,
                                    round, v, nb, got);
                            break;
                        }
                        /* the same with the Elias codes */
                        uint64_t gv = (uint64_t)(round * 3 + 1 + vsel);
                        size_t gb = (round & 1) ? varintEliasDeltaEncode(&w, gv) : varintEliasGammaEncode(&w, gv);
                        total += gb;
                        r.totalBits = total;
                        uint64_t gg = (round & 1) ? varintEliasDeltaDecode(&r) : varintEliasGammaDecode(&r);
                        if (gg != gv) {
                            vh_fail((round & 1) ? "elias.delta" : "elias.gamma", "roundtrip_mismatch", "untagged", "interleaved writer / reader on one buffer, chunk pattern %d, round %d: encoded %" PRIu64 ", the long-lived reader decoded %" PRIu64, pi, round,
                                    gv, gg);
                            break;
                        }
                        vh_count("calls", 4);
                    }
                    vh_count("cases", 1);
                }
            }
            vh_class("bit_io_interleaved", "6 chunk patterns x 3 value selections x 18 rounds");
        }
        /* the same at far stream positions: the writer / reader structs are public, so a caller may continue a stream
         * of more than 2^31 / 2^32 bits or 2^32 bytes. The stream is a PROT_NONE reservation of 2^42 bits; only the
         * pages of the window around the addressed bits are accessible: window vs model, any other access faults */
        if (vh_section_begin("bit_io_far")) {
            size_t maplen = (((size_t)1 << 42) / 8) + (1 << 16);
            uint8_t *map = mmap(NULL, maplen, PROT_NONE, MAP_PRIVATE | MAP_ANONYMOUS | MAP_NORESERVE, -1, 0);
            vh_flag("bit_io_far_mapped", map != MAP_FAILED);
            if (map != MAP_FAILED) {
                static const int EXPS[10] = {31, 32, 33, 34, 35, 36, 37, 38, 40, 42};
                static const long DELTAS[8] = {-130, -70, -9, -1, 0, 1, 7, 63};
                static const size_t WID[5] = {1, 8, 33, 63, 64};
                for (int ei = 0; ei < 10; ei++) {
                    for (int di = 0; di < 8; di++) {
                        for (int wi = 0; wi < 5; wi++) {
                            if (!vh_case()) {
                                continue;
                            }
                            size_t pos = ((size_t)1 << EXPS[ei]) + (size_t)DELTAS[di], nb = WID[wi];
                            if (EXPS[ei] == 42 && DELTAS[di] >= 0) {
                                pos = ((size_t)1 << 42) - 200 - (size_t)DELTAS[di];
                            }
                            uint64_t mask = nb == 64 ? UINT64_MAX : ((1ULL << nb) - 1);
                            for (int mode = 0; mode < 4; mode++) { /* 0 Write, 1 Read, 2 gamma encode+decode, 3 delta encode+decode */
                                uint64_t v = mode < 2 ? (0xA5A5A5A5A5A5A5A5ULL & mask) | 1 : (mask >> 1) | 1;
                                char cbits[200];
                                size_t bits = mode < 2 ? nb : (mode == 2 ? (size_t)ref_elias_gamma_bits(v, cbits) : (size_t)ref_elias_delta_bits(v, cbits));
                                size_t wlo = pos / 8 - 8, whi = (pos + bits + 7) / 8 + 8, wl = whi - wlo;
                                uint8_t model[64];
                                if (wl > sizeof model || whi > maplen) {
                                    continue;
                                }
                                size_t plo = wlo & ~(size_t)4095, phi = (whi + 4095) & ~(size_t)4095;
                                if (mprotect(map + plo, phi - plo, PROT_READ | PROT_WRITE) != 0) {
                                    vh_flag("bit_io_far_mapped", 0);
                                    continue;
                                }
                                memset(model, 0, sizeof model);
                                /* model bits, MSB first, relative to the window start */
                                for (size_t k = 0; k < bits; k++) {
                                    int bit = mode < 2 ? (int)((v >> (nb - 1 - k)) & 1) : cbits[k] != 0;
                                    size_t q = pos - wlo * 8 + k;
                                    if (bit) {
                                        model[q / 8] |= (uint8_t)(1u << (7 - q % 8));
                                    }
                                }
                                memset(map + wlo, 0, wl);
                                if (mode == 1) {
                                    memcpy(map + wlo, model, wl);
                                }
                                uint64_t got = 0, ret = 0;
                                varintBitWriter w = {map, pos, maplen};
                                varintBitReader r = {map, pos, pos + bits};
                                static const char *MN[4] = {"Write then Read", "Read of independently written bits", "gamma Encode/Decode", "delta Encode/Decode"};
                                const char *api = mode < 2 ? "elias.BitWriter/BitReader" : mode == 2 ? "elias.gamma" : "elias.delta";
                                if (SB_ENTER()) {
                                    if (mode == 0) {
                                        varintBitWriterWrite(&w, v, nb);
                                        got = varintBitReaderRead(&r, nb);
                                    } else if (mode == 1) {
                                        got = varintBitReaderRead(&r, nb);
                                    } else if (mode == 2) {
                                        ret = varintEliasGammaEncode(&w, v);
                                        got = varintEliasGammaDecode(&r);
                                    } else {
                                        ret = varintEliasDeltaEncode(&w, v);
                                        got = varintEliasDeltaDecode(&r);
                                    }
                                    SB_LEAVE();
                                } else {
                                    uint8_t *fa = (uint8_t *)vh_fault_addr;
                                    if (fa >= map && fa < map + maplen) {
                                        vh_fail(api, "touches_foreign_bytes", "untagged", "%s at stream bit position 2^%d%+ld: the bits lie in stream bytes %zu..%zu but stream byte %zu was accessed", MN[mode], EXPS[ei], DELTAS[di], wlo + 8, whi - 9,
                                                (size_t)(fa - map));
                                    } else {
                                        vh_fail(api, vh_fault_name(), "untagged", "position 2^%d%+ld width %zu mode %d: %s", EXPS[ei], DELTAS[di], nb, mode, vh_fault_msg);
                                    }
                                }
                                int bad = memcmp(map + wlo, model, wl) != 0 || got != v || (mode != 1 && w.bitPos != pos + bits) || r.bitPos != pos + bits || (mode >= 2 && ret != bits);
                                if (bad) {
                                    vh_fail(api, memcmp(map + wlo, model, wl) ? "bytes_differ_from_reference" : "roundtrip_mismatch", "untagged",
                                            "%s at stream bit position 2^%d%+ld, %zu bits, value 0x%" PRIx64 ": read back 0x%" PRIx64 ", writer bitPos %zu reader bitPos %zu (want %zu), stream bytes %s model %s", MN[mode], EXPS[ei], DELTAS[di], bits, v,
                                            got, w.bitPos, r.bitPos, pos + bits, vh_hex(map + wlo, wl), vh_hex(model, wl));
                                }
                                madvise(map + plo, phi - plo, MADV_DONTNEED);
                                mprotect(map + plo, phi - plo, PROT_NONE);
                                vh_count("calls", 2);
                            }
                            vh_count("cases", 1);
                        }
                    }
                    char ck[48];
                    snprintf(ck, sizeof ck, "bit_io_far/2^%d", EXPS[ei]);
                    vh_class(ck, "8 deltas x 5 widths x 4 modes");
                }
                munmap(map, maplen);
            }
        }
        /* Elias gamma/delta single codes via the bit writer, zig-zag */
        if (vh_section_begin("elias_zigzag")) {
            for (size_t i = 0; i < V.n + 65536; i++) {
                uint64_t v = i < 65536 ? i : V.v[i - 65536];
                if (!vh_case()) {
                    continue;
                }
                vh_count("cases", 1);
                /* zig-zag on the value reinterpreted as signed */
                int64_t s = (int64_t)v;
                uint64_t z = varintDeltaZigZag(s);
                if (z != ref_zigzag(s) || varintDeltaZigZagDecode(z) != s) {
                    vh_fail("delta.ZigZag", "bytes_differ_from_reference", "untagged", "n=%" PRId64 " lib=%" PRIu64 " ref=%" PRIu64 " back=%" PRId64, s, z, ref_zigzag(s), varintDeltaZigZagDecode(z));
                }
                vh_count("calls", 2);
                {
                    /* single delta record: [width byte][zig-zag value, little-endian, minimal width] */
                    uint8_t db[16], rb[16];
                    memset(db, 0x5a, sizeof db);
                    int dl = (int)varintDeltaPut(db, s);
                    int rw = ref_bytes_of(ref_zigzag(s));
                    rb[0] = (uint8_t)rw;
                    ref_le(rb + 1, ref_zigzag(s), rw);
                    int64_t back = ~s;
                    int gl = (int)varintDeltaGet(db, &back);
                    if (dl != 1 + rw || memcmp(db, rb, (size_t)(1 + rw)) || db[1 + rw] != 0x5a || gl != dl || back != s) {
                        vh_fail("delta.Put/Get", dl != 1 + rw || memcmp(db, rb, (size_t)(1 + rw)) ? "bytes_differ_from_reference" : "roundtrip_mismatch", "untagged", "n=%" PRId64 " lib=%s ref=%s put=%d get=%d back=%" PRId64, s, vh_hex(db, 10), vh_hex(rb, (size_t)(1 + rw)), dl, gl, back);
                    }
                    vh_count("calls", 2);
                }
                if (v == 0) {
                    continue;
                }
                for (int delta = 0; delta < 2; delta++) {
                    uint8_t buf[24];
                    char bits[160];
                    varintBitWriter w;
                    int nb = delta ? ref_elias_delta_bits(v, bits) : ref_elias_gamma_bits(v, bits);
                    size_t wrote = 0, predicted = 0;
                    uint64_t back = 0;
                    const char *api = delta ? "elias.DeltaEncode" : "elias.GammaEncode";
                    if (SB_ENTER()) {
                        varintBitWriterInit(&w, buf, sizeof buf);
                        wrote = delta ? varintEliasDeltaEncode(&w, v) : varintEliasGammaEncode(&w, v);
                        predicted = delta ? varintEliasDeltaBits(v) : varintEliasGammaBits(v);
                        varintBitReader r;
                        varintBitReaderInit(&r, buf, wrote);
                        back = delta ? varintEliasDeltaDecode(&r) : varintEliasGammaDecode(&r);
                        SB_LEAVE();
                    } else {
                        vh_fail(api, vh_fault_name(), "untagged", "v=%" PRIu64 " %s", v, vh_fault_msg);
                        continue;
                    }
                    int same = (int)wrote == nb && (int)predicted == nb && w.bitPos == (size_t)nb;
                    for (int k = 0; same && k < (int)sizeof buf * 8; k++) {
                        int bit = (buf[k / 8] >> (7 - (k % 8))) & 1;
                        int want = k < nb ? bits[k] : 0;
                        if (bit != want) {
                            same = 0;
                        }
                    }
                    if (!same) {
                        vh_fail(api, "bytes_differ_from_reference", "untagged", "v=%" PRIu64 " wrote=%zu predicted=%zu ref_bits=%d buf=%s", v, wrote, predicted, nb, vh_hex(buf, sizeof buf));
                    }
                    if (back != v) {
                        vh_fail(api, "roundtrip_mismatch", "untagged", "v=%" PRIu64 " back=%" PRIu64, v, back);
                    }
                    vh_count("calls", 3);
                    char ck[48];
                    snprintf(ck, sizeof ck, "elias/%s/bits%d", delta ? "delta" : "gamma", nb);
                    vh_class(ck, "v=%" PRIu64, v);
                }
            }
        }
    }
    free(V.v);
}

/* ------------------------------------------------------------------ C05 */
static inline int sgn(int x) { return (x > 0) - (x < 0); }

static void c05_pair(uint64_t a, uint64_t b) {
    uint8_t ea[16], eb[16];
    int la = (int)varintTaggedPut64(ea, a), lb = (int)varintTaggedPut64(eb, b);
    int m = la < lb ? la : lb;
    int c = sgn(memcmp(ea, eb, (size_t)m));
    int want = (a > b) - (a < b);
    vh_count("calls", 2);
    if (c != want || (a == b && (la != lb || memcmp(ea, eb, (size_t)la)))) {
        vh_fail("tagged.Put64", "order_violation", "untagged", "a=%" PRIu64 " b=%" PRIu64 " enc(a)=%s enc(b)=%s memcmp=%d want=%d", a, b, vh_hex(ea, (size_t)la), vh_hex(eb, (size_t)lb), c, want);
    }
}

static void run_c05(void) {
    uint64_t P = prefix_bits();
    vh_infostr("prefix_bits", "%" PRIu64, P);
    const uint64_t BLK = 1u << 14;
    if (vh_section_begin("adjacent_prefix")) {
        int complete = 1;
        for (uint64_t b = 0; b < (1ULL << P) / BLK; b++) {
            if (!vh_case()) {
                continue;
            }
            if (vh_deadline_now()) {
                complete = 0;
                break;
            }
            uint64_t lo = b * BLK;
            uint8_t prev[16], cur[16];
            int lp = (int)varintTaggedPut64(prev, lo ? lo - 1 : 0);
            for (uint64_t v = lo ? lo : 1; v < lo + BLK; v++) {
                int lc = (int)varintTaggedPut64(cur, v);
                int m = lp < lc ? lp : lc;
                if (memcmp(prev, cur, (size_t)m) >= 0) {
                    vh_fail("tagged.Put64", "order_violation", "untagged", "adjacent a=%" PRIu64 " b=%" PRIu64 " enc(a)=%s enc(b)=%s", v - 1, v, vh_hex(prev, (size_t)lp), vh_hex(cur, (size_t)lc));
                }
                memcpy(prev, cur, 16);
                lp = lc;
            }
            vh_count("cases", BLK);
            vh_count("calls", BLK);
            char ck[48];
            snprintf(ck, sizeof ck, "adjacent/len%d", lp);
            vh_class(ck, "v=%" PRIu64, lo + BLK - 1);
        }
        vh_flag("adjacent_pairs_prefix", complete);
    }
    /* reduced alphabet: boundary windows + 3-symbol byte product */
    u64vec R = {0};
    alpha_boundary_windows(&R, vh_thorough ? 12 : 2);
    static const uint8_t sym[3] = {0x00, 0x80, 0xff};
    for (uint32_t i = 0; i < 6561; i++) {
        uint32_t t = i;
        uint64_t x = 0;
        for (int k = 0; k < 8; k++) {
            x |= (uint64_t)sym[t % 3] << (8 * k);
            t /= 3;
        }
        u64vec_push(&R, x);
    }
    /* values differing in exactly one payload byte, per width class */
    for (int w = 3; w <= 8; w++) {
        uint64_t base = 0x0102030405060708ULL >> (8 * (8 - w));
        base |= 1ULL << (8 * w - 1);
        for (int pos = 0; pos < w; pos++) {
            for (int d = 0; d < 256; d += 51) {
                u64vec_push(&R, (base & ~(0xffULL << (8 * pos))) | ((uint64_t)d << (8 * pos)));
            }
        }
    }
    u64vec_sortuniq(&R);
    vh_infostr("pair_alphabet_size", "%zu", R.n);
    if (vh_section_begin("all_pairs")) {
        int complete = 1;
        for (size_t i = 0; i < R.n; i++) {
            if (!vh_case()) {
                continue;
            }
            if (vh_deadline_now()) {
                complete = 0;
                break;
            }
            for (size_t j = 0; j < R.n; j++) {
                c05_pair(R.v[i], R.v[j]);
            }
            /* adjacent pair in the window */
            if (R.v[i] != UINT64_MAX) {
                c05_pair(R.v[i], R.v[i] + 1);
            }
            vh_count("cases", R.n);
            char ck[48];
            snprintf(ck, sizeof ck, "pairs/lenA%d", (int)varintTaggedLen(R.v[i]));
            vh_class(ck, "a=%" PRIu64 " x all %zu values", R.v[i], R.n);
        }
        vh_flag("all_pairs_reduced_alphabet", complete);
    }
    /* every producer of a tagged encoding yields the same bytes for the same value: Put64, Put64FixedWidth at the
     * minimal width, the Quick macro (its value operand is an expression evaluated once) and PutVarint32; all values of
     * the 1-, 2- and 3-byte classes (0..67900) and the boundary alphabet beyond */
    if (vh_section_begin("producers_agree")) {
        u64vec B = {0};
        alpha_boundary_windows(&B, 1);
        const uint64_t DENSE = 67900;
        for (uint64_t i = 0; i < DENSE + B.n; i++) {
            if (!vh_case()) {
                continue;
            }
            uint64_t v = i < DENSE ? i : B.v[i - DENSE];
            uint8_t e0[16], e1[16], e2[16], e3[16];
            memset(e0, 0xa5, 16);
            memset(e1, 0xa5, 16);
            memset(e2, 0xa5, 16);
            memset(e3, 0xa5, 16);
            int l0 = (int)varintTaggedPut64(e0, v);
            int l1 = (int)varintTaggedPut64FixedWidth(e1, v, (varintWidth)l0);
            g_nev = 0;
            varintTaggedPut64FixedWidthQuick_(e2, ev_once(v), l0);
            int same = l1 == l0 && !memcmp(e0, e1, 16) && !memcmp(e0, e2, 16);
            if (v <= UINT32_MAX) {
                int l3 = (int)varintTaggedPutVarint32(e3, (uint32_t)v);
                same = same && l3 == l0 && !memcmp(e0, e3, 16);
            }
            if (!same) {
                vh_fail("tagged.producers", "equal_values_different_bytes", "untagged", "v=%" PRIu64 ": Put64 %s, Put64FixedWidth %s, Put64FixedWidthQuick_(expression operand) %s, PutVarint32 %s", v, vh_hex(e0, 10), vh_hex(e1, 10),
                        vh_hex(e2, 10), v <= UINT32_MAX ? vh_hex(e3, 10) : "-");
            }
            /* in-place update through the macro: the operand expression READS the destination (a counter kept as a
             * tagged varint): the operand is evaluated before the destination is written, as with the function */
            {
                static const uint64_t FROM[10] = {0, 1, 240, 241, 2287, 2288, 67823, 67824, 16777215, 16777216};
                for (int fi = 0; fi < 12; fi++) {
                    uint64_t from = fi < 10 ? FROM[fi] : fi == 10 ? v - (v ? 1 : 0) : v + 1;
                    uint8_t key[16];
                    memset(key, 0xa5, 16);
                    varintTaggedPut64(key, from);
                    varintTaggedPut64FixedWidthQuick_(key, varintTaggedGet64Quick_(key) + (v - from), l0);
                    if (memcmp(key, e0, (size_t)l0)) {
                        vh_fail("tagged.producers", "equal_values_different_bytes", "untagged", "v=%" PRIu64 " written in place over %" PRIu64 " with Put64FixedWidthQuick_(key, Get64Quick_(key) + d, %d): %s, Put64 gives %s", v, from, l0,
                                vh_hex(key, 10), vh_hex(e0, 10));
                        break;
                    }
                }
                vh_count("calls", 12);
            }
            vh_count("calls", 4);
            vh_count("cases", 1);
        }
        free(B.v);
        vh_class("producers_agree", "0..67899 and the boundary alphabet");
    }
    /* every producer of a tagged encoding must yield THE encoding of the value ("equal values have identical bytes"):
     * the in-place adders store their result as a tagged varint too */
    if (vh_section_begin("add_results")) {
        u64vec B = {0};
        alpha_boundary_windows(&B, 1);
        for (size_t i = 0; i < B.n; i++) {
            if (!vh_case()) {
                continue;
            }
            for (size_t j = 0; j < B.n; j++) {
                uint64_t sv = B.v[i], tv = B.v[j];
                if (sv > (uint64_t)INT64_MAX || tv > (uint64_t)INT64_MAX) {
                    continue; /* the adders work on the value as a signed 64-bit integer */
                }
                int64_t a = (int64_t)tv - (int64_t)sv;
                for (int grow = 0; grow < 2; grow++) {
                    uint8_t slot[16], canon[16];
                    memset(slot, 0x5a, sizeof slot);
                    int ls = (int)varintTaggedPut64(slot, sv);
                    int lc = (int)varintTaggedPut64(canon, tv);
                    int ret = grow ? (int)varintTaggedAddGrow(slot, a) : (int)varintTaggedAddNoGrow(slot, a);
                    vh_count("calls", 3);
                    if (!grow && lc > ls) {
                        continue; /* does not fit: buffer left alone (C12's business) */
                    }
                    if (ret != lc || memcmp(slot, canon, (size_t)lc)) {
                        vh_fail(grow ? "tagged.AddGrow" : "tagged.AddNoGrow", "equal_values_different_bytes", "untagged", "stored %" PRIu64 " + %" PRId64 " = %" PRIu64 ": bytes %s (returned width %d) but Put64 of the same value gives %s", sv, a, tv,
                                vh_hex(slot, 9), ret, vh_hex(canon, (size_t)lc));
                    }
                }
            }
            vh_count("cases", B.n);
        }
        vh_class("add_results", "in-place add results over %zu x %zu boundary values compared with the canonical encoding", B.n, B.n);
        free(B.v);
    }
    /* tuples: concatenations */
    static const uint64_t T2[] = {0, 1, 239, 240, 241, 495, 496, 497, 2287, 2288, 2289, 67823, 67824, 16777215ULL, 16777216ULL,
                                  4294967295ULL, 4294967296ULL, 1099511627775ULL, 1099511627776ULL, 281474976710655ULL,
                                  281474976710656ULL, 72057594037927935ULL, 72057594037927936ULL, UINT64_MAX - 1, UINT64_MAX,
                                  255, 256, 65535, 65536, 0x8000000000000000ULL};
    const size_t n2 = sizeof T2 / sizeof *T2;
    if (vh_section_begin("tuples2")) {
        for (size_t a0 = 0; a0 < n2; a0++) {
            for (size_t a1 = 0; a1 < n2; a1++) {
                if (!vh_case()) {
                    continue;
                }
                uint8_t ea[32];
                int la = (int)varintTaggedPut64(ea, T2[a0]);
                la += (int)varintTaggedPut64(ea + la, T2[a1]);
                for (size_t b0 = 0; b0 < n2; b0++) {
                    for (size_t b1 = 0; b1 < n2; b1++) {
                        uint8_t eb[32];
                        int lb = (int)varintTaggedPut64(eb, T2[b0]);
                        lb += (int)varintTaggedPut64(eb + lb, T2[b1]);
                        int m = la < lb ? la : lb;
                        int c = sgn(memcmp(ea, eb, (size_t)m));
                        int want = T2[a0] != T2[b0] ? ((T2[a0] > T2[b0]) - (T2[a0] < T2[b0])) : ((T2[a1] > T2[b1]) - (T2[a1] < T2[b1]));
                        if (c != want) {
                            vh_fail("tagged.Put64", "order_violation", "untagged", "tuple (%" PRIu64 ",%" PRIu64 ") vs (%" PRIu64 ",%" PRIu64 ") memcmp=%d want=%d", T2[a0], T2[a1], T2[b0], T2[b1], c, want);
                        }
                    }
                }
                vh_count("cases", n2 * n2);
                vh_count("calls", 2 * n2 * n2);
            }
        }
        vh_class("tuples2", "all pairs of 2-tuples over %zu values", n2);
    }
    static const uint64_t T3[] = {0, 240, 241, 2287, 2288, 67823, 67824, 16777216ULL, 4294967296ULL, 1099511627776ULL, 72057594037927936ULL, UINT64_MAX};
    const size_t n3 = sizeof T3 / sizeof *T3;
    if (vh_section_begin("tuples3")) {
        for (size_t ai = 0; ai < n3 * n3 * n3; ai++) {
            if (!vh_case()) {
                continue;
            }
            uint64_t A[3] = {T3[ai / (n3 * n3)], T3[(ai / n3) % n3], T3[ai % n3]};
            uint8_t ea[32];
            int la = 0;
            for (int k = 0; k < 3; k++) {
                la += (int)varintTaggedPut64(ea + la, A[k]);
            }
            for (size_t bi = 0; bi < n3 * n3 * n3; bi++) {
                uint64_t B[3] = {T3[bi / (n3 * n3)], T3[(bi / n3) % n3], T3[bi % n3]};
                uint8_t eb[32];
                int lb = 0;
                for (int k = 0; k < 3; k++) {
                    lb += (int)varintTaggedPut64(eb + lb, B[k]);
                }
                int m = la < lb ? la : lb;
                int c = sgn(memcmp(ea, eb, (size_t)m));
                int want = 0;
                for (int k = 0; k < 3 && !want; k++) {
                    want = (A[k] > B[k]) - (A[k] < B[k]);
                }
                if (c != want) {
                    vh_fail("tagged.Put64", "order_violation", "untagged", "3-tuple (%" PRIu64 ",%" PRIu64 ",%" PRIu64 ") vs (%" PRIu64 ",%" PRIu64 ",%" PRIu64 ") memcmp=%d want=%d", A[0], A[1], A[2], B[0], B[1], B[2], c, want);
                }
            }
            vh_count("cases", n3 * n3 * n3);
            vh_count("calls", 3 * n3 * n3 * n3);
        }
        vh_class("tuples3", "all pairs of 3-tuples over %zu values", n3);
    }
    free(R.v);
}

/* ------------------------------------------------------------------ C12 */
static const char *c12_trigger(int ext, int64_t s, int64_t a, int w, int grow) {
    (void)s;
    (void)a;
    (void)w;
    (void)grow;
    (void)ext;
    return "untagged";
}

/* the amount as a LITERAL at the call site (a macro form of the adders, __builtin_constant_p paths, constant
 * propagation into an inlined body): one call site per literal */
#define C12_LITS X(0) X(1) X(2) X(15) X(16) X(127) X(128) X(200) X(230) X(239) X(240) X(241) X(250) X(254) X(255) X(256) X(1000) X(65535) X(-1) X(-2) X(-16) X(-240) X(-241) X(-255) X(-256) X(-65536)
static const int64_t C12_LIT[] = {
#define X(A) A,
    C12_LITS
#undef X
};
static int g_c12_literal = 0;
static int c12_lit_call(int ext, int grow, uint8_t *p, int w, int64_t a) {
    switch (a) {
#define X(A)                                                                                                       \
    case A:                                                                                                        \
        return ext ? (grow ? (int)varintExternalAddGrow(p, (varintWidth)w, A) : (int)varintExternalAddNoGrow(p, (varintWidth)w, A))                        \
                   : (grow ? (int)varintTaggedAddGrow(p, A) : (int)varintTaggedAddNoGrow(p, A));
        C12_LITS
#undef X
    default:
        return -1;
    }
}

static uint8_t C12_PLACE_BUF[256] __attribute__((aligned(64)));
static int g_c12_place = -1; /* -1: slot ends at a guard page; 0..127: slot starts at that byte of an aligned line */

static void c12_one(int ext, uint64_t su, int w, int64_t a, int grow) {
    /* slot: exactly w bytes for no-grow, family max for grow, at the end of a guard buffer */
    int maxlen = ext ? 8 : 9;
    int slot = grow ? maxlen : w;
    uint8_t before[16], after[16];
    int64_t s = (int64_t)su;
    long long sum = 0;
    int ovf = __builtin_saddll_overflow((long long)s, (long long)a, &sum);
    const char *api = ext ? (grow ? "external.AddGrow" : "external.AddNoGrow") : (grow ? "tagged.AddGrow" : "tagged.AddNoGrow");
    const char *trig = c12_trigger(ext, s, a, w, grow);
    for (int bgi = 0; bgi < 2; bgi++) {
        uint8_t *p;
        if (g_c12_place < 0) {
            p = vh_gb_get(0, (size_t)slot, bgi ? 0x5a : 0xa5);
        } else {
            /* slot inside a record: at byte g_c12_place of a 64-byte-aligned line, neighbours on both sides */
            memset(C12_PLACE_BUF, bgi ? 0x5a : 0xa5, sizeof C12_PLACE_BUF);
            p = C12_PLACE_BUF + 64 + g_c12_place;
        }
        if (ext) {
            varintExternalPutFixedWidth(p, su, (varintWidth)w);
        } else {
            varintTaggedPut64FixedWidth(p, su, (varintWidth)w);
        }
        memcpy(before, p, (size_t)slot);
        int ret = -1;
        if (SB_ENTER()) {
            if (g_c12_literal) {
                ret = c12_lit_call(ext, grow, p, w, a);
            } else if (ext) {
                ret = grow ? (int)varintExternalAddGrow(p, (varintWidth)w, a) : (int)varintExternalAddNoGrow(p, (varintWidth)w, a);
            } else {
                ret = grow ? (int)varintTaggedAddGrow(p, a) : (int)varintTaggedAddNoGrow(p, a);
            }
            SB_LEAVE();
        } else {
            vh_fail(api, vh_fault_kind == 1 ? "write_past_slot" : vh_fault_name(), trig, "stored=%" PRIu64 " w=%d add=%" PRId64 " slot=%d fault_off=%ld %s", su, w, a, slot, vh_fault_off, vh_fault_msg);
            return;
        }
        vh_count("calls", 1);
        memcpy(after, p, (size_t)slot);
        int canary = 1;
        if (g_c12_place < 0) {
            canary = vh_gb_canary_ok(0);
        } else {
            for (size_t q = 0; q < sizeof C12_PLACE_BUF; q++) {
                if ((C12_PLACE_BUF + q < p || C12_PLACE_BUF + q >= p + slot) && C12_PLACE_BUF[q] != (bgi ? 0x5a : 0xa5)) {
                    canary = 0;
                }
            }
        }
        int newlen = ext ? ref_bytes_of((uint64_t)sum) : ref_tagged((uint64_t)sum, (uint8_t[16]){0});
        const char *outcome;
        if (!canary) {
            vh_fail(api, "stray_write", trig, "bytes outside the slot changed: stored=%" PRIu64 " w=%d add=%" PRId64, su, w, a);
        }
        if (ovf) {
            outcome = "overflow";
            if (ret != 0 || memcmp(before, after, (size_t)slot)) {
                vh_fail(api, "overflow_not_reported", trig, "stored=%" PRIu64 " w=%d add=%" PRId64 " ret=%d before=%s after=%s", su, w, a, ret, vh_hex(before, (size_t)slot), vh_hex(after, (size_t)slot));
            }
        } else if (!grow && newlen > w) {
            outcome = "nofit";
            if (ret != newlen || memcmp(before, after, (size_t)slot)) {
                vh_fail(api, memcmp(before, after, (size_t)slot) ? "nogrow_slot_modified" : "wrong_required_width", trig, "stored=%" PRIu64 " w=%d add=%" PRId64 " sum=%lld needs=%d ret=%d before=%s after=%s", su, w, a, sum, newlen, ret, vh_hex(before, (size_t)slot), vh_hex(after, (size_t)slot));
            }
        } else {
            outcome = "stored";
            /* bytes decode at the returned width to the sum; returned width is what is now stored */
            uint64_t got = ~(uint64_t)sum;
            int okw = ret >= 1 && ret <= slot;
            if (okw) {
                if (ext) {
                    got = varintExternalGet(p, (varintWidth)ret);
                } else {
                    uint64_t g = 0;
                    int gl = (int)varintTaggedGet(p, slot, &g);
                    got = g;
                    if (gl != ret) {
                        okw = 0;
                    }
                }
            }
            if (!okw || got != (uint64_t)sum || ret != newlen) {
                vh_fail(api, "wrong_sum_or_width", trig, "stored=%" PRIu64 " w=%d add=%" PRId64 " sum=%lld ret=%d want_width=%d got=%" PRIu64 " after=%s", su, w, a, sum, ret, newlen, got, vh_hex(after, (size_t)slot));
            }
            /* bytes beyond the new width inside the slot: untouched */
            if (okw && memcmp(before + (ret > w ? ret : w), after + (ret > w ? ret : w), (size_t)(slot - (ret > w ? ret : w)))) {
                vh_fail(api, "stray_write", trig, "bytes beyond both old and new width changed: stored=%" PRIu64 " w=%d add=%" PRId64 " before=%s after=%s", su, w, a, vh_hex(before, (size_t)slot), vh_hex(after, (size_t)slot));
            }
        }
        if (bgi == 0) {
            char ck[96];
            snprintf(ck, sizeof ck, "%s/w%d/new%d/%s", api, w, ovf ? 0 : newlen, outcome);
            vh_class(ck, "stored=%" PRIu64 " add=%" PRId64, su, a);
        }
    }
}

static void run_c12(void) {
    u64vec B = {0};
    alpha_boundary_windows(&B, vh_thorough ? 3 : 2);
    vh_infostr("boundary_alphabet_size", "%zu", B.n);
    for (int ext = 0; ext < 2; ext++) {
        if (!vh_section_begin(ext ? "add/external" : "add/tagged")) {
            continue;
        }
        int complete = 1;
        for (size_t i = 0; i < B.n && complete; i++) {
            uint64_t s = B.v[i];
            int minw = ext ? ref_bytes_of(s) : ref_tagged(s, (uint8_t[16]){0});
            int maxw = ext ? 8 : minw; /* external: fixed-width storage of a small value is legal */
            for (int w = minw; w <= maxw; w++) {
                if (!vh_case()) {
                    continue;
                }
                if (vh_deadline_now()) {
                    complete = 0;
                    break;
                }
                /* amounts: every target t (and t+-1) in the alphabet, plus edges */
                for (size_t j = 0; j <= B.n + 12; j++) {
                    int64_t a;
                    if (j < B.n) {
                        /* t - s must be representable as int64 in two's complement: a = (int64)(t - s) covers
                         * both directions; only keep it when the mathematical difference fits */
                        uint64_t t = B.v[j];
                        __int128 d = (__int128)t - (__int128)s;
                        if (d > INT64_MAX || d < INT64_MIN) {
                            continue;
                        }
                        a = (int64_t)d;
                    } else {
                        static const int64_t edges[] = {0, 1, -1, INT64_MIN, INT64_MAX, INT64_MIN + 1, INT64_MAX - 1, 255, 256, -255, -256, 65536, -65536};
                        a = edges[j - B.n];
                    }
                    for (int grow = 0; grow < 2; grow++) {
                        c12_one(ext, s, w, a, grow);
                    }
                    vh_count("cases", 2);
                }
                /* overflow edges relative to s (as signed) */
                int64_t ss = (int64_t)s;
                int64_t es[4];
                int ne = 0;
                if (ss >= 0) {
                    es[ne++] = INT64_MAX - ss;
                    if (ss > 0) {
                        es[ne++] = INT64_MAX - ss + 1;
                    }
                } else {
                    es[ne++] = INT64_MIN - ss;
                    es[ne++] = INT64_MIN - ss - 1;
                }
                for (int k = 0; k < ne; k++) {
                    for (int grow = 0; grow < 2; grow++) {
                        c12_one(ext, s, w, es[k], grow);
                    }
                    vh_count("cases", 2);
                }
            }
        }
        vh_flag(ext ? "triples_external" : "triples_tagged", complete);
    }
    /* literal amounts: every stored value below 2400 and the boundary alphabet x 26 literal amounts */
    if (vh_section_begin("add/literal-amounts")) {
        const uint64_t DENSE = 2400;
        for (uint64_t i = 0; i < DENSE + B.n; i++) {
            if (!vh_case()) {
                continue;
            }
            uint64_t sv = i < DENSE ? i : B.v[i - DENSE];
            g_c12_literal = 1;
            for (int ext = 0; ext < 2; ext++) {
                int w = ext ? ref_bytes_of(sv) : ref_tagged(sv, (uint8_t[16]){0});
                for (size_t li = 0; li < sizeof C12_LIT / sizeof *C12_LIT; li++) {
                    for (int grow = 0; grow < 2; grow++) {
                        c12_one(ext, sv, w, C12_LIT[li], grow);
                    }
                }
            }
            g_c12_literal = 0;
            vh_count("cases", 104);
        }
        vh_class("add/literal-amounts", "26 literal amounts x {grow, no-grow} x {tagged, external}");
    }
    /* byte-pattern product: every stored value whose 8 bytes are drawn from {00, 01, 7f, 80, ff} (5^8 = 390625 values:
     * every pattern of carries and borrows rippling through any run of bytes) x small amounts of both signs */
    if (vh_section_begin("add/byte-patterns")) {
        static const uint8_t SYM[5] = {0x00, 0x01, 0x7f, 0x80, 0xff};
        static const int64_t AM[12] = {1, 2, 0x10, 0x20, 0x7f, 0x80, 0xff, 0x100, -1, -0x20, -0xff, -0x100};
        for (uint32_t k = 0; k < 390625; k++) {
            if (!vh_case()) {
                continue;
            }
            uint64_t sv = 0;
            uint32_t t = k;
            for (int b = 0; b < 8; b++) {
                sv |= (uint64_t)SYM[t % 5] << (8 * b);
                t /= 5;
            }
            for (int ext = 0; ext < 2; ext++) {
                int w = ext ? ref_bytes_of(sv) : ref_tagged(sv, (uint8_t[16]){0});
                for (int ai = 0; ai < 12; ai++) {
                    for (int grow = 0; grow < 2; grow++) {
                        c12_one(ext, sv, w, AM[ai], grow);
                    }
                }
            }
            vh_count("cases", 48);
        }
        vh_class("add/byte-patterns", "5^8 stored values x 12 amounts x {grow, no-grow} x {tagged, external}");
    }
    /* slot placement: the same call must store the same bytes wherever the slot lies - every start offset 0..127
     * relative to a 64-byte line (so every way the old and the new encoding can straddle a 4-, 8-, 16- or 64-byte
     * boundary), with live neighbours on both sides. Stored values: per width class the smallest, the largest and a
     * value whose bytes are all different; amounts of both signs that keep, widen and narrow the encoding. */
    if (vh_section_begin("add/placements")) {
        static const uint64_t PAT = 0x0102030405060708ULL;
        static const int64_t AM[] = {0, 1, -1, 255, -256, 0x010203, -0x010203, 0x0102030405LL, -0x0102030405LL,
                                     0x01020304050607LL, -0x01020304050607LL, 0x7060504030201000LL, INT64_MAX, INT64_MIN};
        uint64_t SV[64];
        size_t nsv = 0;
        SV[nsv++] = 0;
        for (int b = 1; b <= 8; b++) {
            uint64_t hi = b == 8 ? ~0ULL : ((1ULL << (8 * b)) - 1);
            SV[nsv++] = hi;                  /* largest b-byte value */
            SV[nsv++] = (hi >> 8) + 1;       /* smallest b-byte value */
            SV[nsv++] = PAT >> (8 * (8 - b)); /* b distinct bytes */
            SV[nsv++] = 5000000000ULL >> (8 * (8 - b > 3 ? 3 : 0));
        }
        SV[nsv++] = 240;
        SV[nsv++] = 2287;
        SV[nsv++] = 2288;
        SV[nsv++] = 67823;
        SV[nsv++] = 67824;
        SV[nsv++] = 16777215;
        SV[nsv++] = 16777216;
        SV[nsv++] = (uint64_t)INT64_MAX;
        for (int off = 0; off < 128; off++) {
            if (!vh_case()) {
                continue;
            }
            g_c12_place = off;
            for (size_t i = 0; i < nsv; i++) {
                for (int ext = 0; ext < 2; ext++) {
                    int minw = ext ? ref_bytes_of(SV[i]) : ref_tagged(SV[i], (uint8_t[16]){0});
                    int maxw = ext ? 8 : minw;
                    for (int w = minw; w <= maxw; w += (maxw - minw > 1 ? maxw - minw : 1)) {
                        for (size_t ai = 0; ai < sizeof AM / sizeof *AM; ai++) {
                            for (int grow = 0; grow < 2; grow++) {
                                c12_one(ext, SV[i], w, AM[ai], grow);
                            }
                        }
                    }
                }
            }
            g_c12_place = -1;
            vh_count("cases", 1);
            char ck[48];
            snprintf(ck, sizeof ck, "add/placements/off%%64=%d", off % 64);
            vh_class(ck, "slot at byte %d of an aligned 64-byte line", off);
        }
    }
    if (vh_thorough && vh_section_begin("add/dense")) {
        /* dense small scope: every stored value below 70000 (all 1-3 byte tagged classes and their boundaries) x every
         * amount in [-2300, 2300] */
        for (uint64_t sv = 0; sv < 70000; sv++) {
            if (!vh_case()) {
                continue;
            }
            if (vh_deadline_hit()) {
                break;
            }
            for (int ext = 0; ext < 2; ext++) {
                int w = ext ? ref_bytes_of(sv) : ref_tagged(sv, (uint8_t[16]){0});
                for (int64_t a = -2300; a <= 2300; a += (sv % 7 == 0) ? 1 : 23) {
                    c12_one(ext, sv, w, a, 0);
                    c12_one(ext, sv, w, a, 1);
                }
            }
            vh_count("cases", 1);
        }
    }
    free(B.v);
}

int main(int argc, char **argv) {
    vh_init(argc, argv);
    for (int i = 1; i < argc; i++) {
        if (!strcmp(argv[i], "--prop") && i + 1 < argc) {
            PROP = argv[i + 1];
        }
    }
    P_C01 = !strcmp(PROP, "C01");
    P_C04 = !strcmp(PROP, "C04");
    P_C05 = !strcmp(PROP, "C05");
    P_C12 = !strcmp(PROP, "C12");
    vh_sandbox_init();
    vh_watchdog(60); /* a library call that makes no progress for a whole period is reported as a hang */
    vh_gb_init(0, 4096);
    if (P_C01 || P_C04) {
        run_c01_c04();
    } else if (P_C05) {
        run_c05();
    } else if (P_C12) {
        run_c12();
    } else {
        fprintf(stderr, "unknown --prop %s\n", PROP);
        return 3;
    }
    vh_write_out();
    return 0;
}
