/* c15.c - results depend only on the arguments (C15).
 * Operation alphabet O: ~100 calls (every encoder / decoder / sizing / metadata function on small fixed inputs).
 * Baseline of each operation = its observable outputs when run alone in a fresh exec'ed process.
 * Explored, each in a child forked from a parent that never called the library (so the history is exactly what
 * the case says and replay is faithful):
 *   pairs    every ordered pair (p, c): c's outputs after p must equal c's baseline
 *   triples  (thorough) every ordered triple over a 30-operation subset
 *   residue  every c x stack word w (64 KiB painted below the frame) x heap fill byte x recycle policy
 * In the msan build every use of uninitialised memory inside the child makes it exit with code 77.
 */
#include "vh.h"
#include "vmalloc.h"

#include <sys/wait.h>

#include "varint.h"
#include "varintAdaptive.h"
#include "varintBP128.h"
#include "varintBitmap.h"
#include "varintDelta.h"
#include "varintDict.h"
#include "varintDimension.h"
#include "varintElias.h"
#include "varintFOR.h"
#include "varintFloat.h"
#include "varintGroup.h"
#include "varintPFOR.h"
#include "varintRLE.h"
#include "varintTagged.h"

/* ---------------------------------------------------------------- observation buffer */
#define OBS_MAX (1 << 16)
typedef struct {
    uint32_t len;
    uint32_t overflow;
    uint8_t b[OBS_MAX];
} obuf;
static void o_bytes(obuf *o, const void *p, size_t n) {
    if (o->len + n > OBS_MAX) {
        o->overflow = 1;
        n = OBS_MAX - o->len;
    }
    memcpy(o->b + o->len, p, n);
    o->len += (uint32_t)n;
}
static void o_u64(obuf *o, uint64_t v) { o_bytes(o, &v, 8); }

/* ---------------------------------------------------------------- fixed inputs */
#define NIN 6
static uint64_t IN[NIN][160];
static const size_t INN[NIN] = {1, 5, 21, 130, 21, 21};
static void build_inputs(void) {
    IN[0][0] = 300;
    for (size_t i = 0; i < 5; i++) {
        IN[1][i] = 1000 + i * 3;
    }
    for (size_t i = 0; i < 21; i++) {
        IN[2][i] = (i % 7 == 6) ? 5000000000ULL + i : 40 + (i * 5) % 23;
    }
    for (size_t i = 0; i < 130; i++) {
        IN[3][i] = 70000 + i * i;
    }
    for (size_t i = 0; i < 21; i++) { /* same count as input 2, different data: the stale-metadata trap */
        IN[4][i] = (i % 4) * 1000003ULL + 7;
    }
    /* the twin of input 2: same count, same sum, same last element - one unit moved from the minimum element to a
     * middle one, so the minimum, the frame and the deltas differ while cheap summaries of the data (length, sum)
     * do not */
    memcpy(IN[5], IN[2], sizeof IN[5]);
    IN[5][0] -= 1;
    IN[5][8] += 1;
}

/* large inputs (above the library's 10000-element sampling threshold), used by the op_large_* operations only */
#define NLARGE 10500
static uint64_t INL[2][NLARGE];
static void build_large_inputs(void) {
    for (size_t i = 0; i < NLARGE; i++) {
        /* every 10th element equal (what a stride-10 sample sees is constant), the rest scattered over 3000 values */
        INL[0][i] = (i % 10 == 0) ? 7 : 100 + (i * 2654435761ULL) % 3000;
        INL[1][i] = (i * 2654435761ULL) % 100000;
    }
}
static uint8_t ENCL[NLARGE * 10 + 4096];
static uint64_t DECL[NLARGE + 16];

/* ---------------------------------------------------------------- environment seam
 * Process-global sources of hidden state in libc are owned by the harness: the library is linked against these
 * definitions, so a call to one of them is (a) counted and (b) answered from a stream the harness chooses. Stream 0
 * is the baseline; a run under stream 1 must give the same observations, and so must a call made after other calls
 * have advanced the stream. */
static int ENV_STREAM = 0;
static uint64_t env_state = 0x853c49e6748fea9bULL;
static uint64_t env_calls = 0;
static uint64_t env_next(void) {
    env_calls++;
    env_state = env_state * 6364136223846793005ULL + 1442695040888963407ULL + (uint64_t)ENV_STREAM * 0x9e3779b97f4a7c15ULL;
    return env_state >> 20;
}
#ifndef VH_MSAN
int rand(void) { return (int)(env_next() & 0x7fffffff); }
long random(void) { return (long)(env_next() & 0x7fffffff); }
void srand(unsigned seed) {
    (void)seed;
    env_next();
}
void srandom(unsigned seed) {
    (void)seed;
    env_next();
}
long lrand48(void) { return (long)(env_next() & 0x7fffffff); }
long mrand48(void) { return (long)(int32_t)env_next(); }
double drand48(void) { return (double)(env_next() & 0xfffffff) / (double)0x10000000; }
time_t time(time_t *t) {
    time_t v = (time_t)(1700000000 + (env_next() & 0xffffff));
    if (t) {
        *t = v;
    }
    return v;
}
clock_t clock(void) { return (clock_t)(env_next() & 0xffffff); }
#endif

static uint8_t ENC[8192], ENC2[8192];
static uint64_t DEC[200];
/* prior contents of the caller's output buffers: part of the environment, not of the arguments. The baseline uses
 * 0x11 / 0x22; the residue exploration varies them. */
static int FILL_ENC = 0x11, FILL_DEC = 0x22;

/* ---------------------------------------------------------------- operations */
typedef void (*opfn)(obuf *o, const uint64_t *v, size_t n, int arg);

static void op_delta_u(obuf *o, const uint64_t *v, size_t n, int arg) {
    (void)arg;
    memset(ENC, FILL_ENC, sizeof ENC);
    size_t w = varintDeltaEncodeUnsigned(ENC, v, n);
    o_u64(o, w);
    o_bytes(o, ENC, w);
    memset(DEC, FILL_DEC, sizeof DEC);
    size_t r = varintDeltaDecodeUnsigned(ENC, n, DEC);
    o_u64(o, r);
    o_bytes(o, DEC, n * 8);
}
static void op_delta_s(obuf *o, const uint64_t *v, size_t n, int arg) {
    (void)arg;
    int64_t sv[160];
    for (size_t i = 0; i < n; i++) {
        sv[i] = (int64_t)(v[i] >> 1) * ((i & 1) ? -1 : 1);
    }
    memset(ENC, FILL_ENC, sizeof ENC);
    size_t w = varintDeltaEncode(ENC, sv, n);
    o_u64(o, w);
    o_bytes(o, ENC, w);
    memset(DEC, FILL_DEC, sizeof DEC);
    size_t r = varintDeltaDecode(ENC, n, (int64_t *)DEC);
    o_u64(o, r);
    o_bytes(o, DEC, n * 8);
}
static void o_formeta(obuf *o, const varintFORMeta *m) {
    o_u64(o, m->minValue);
    o_u64(o, m->maxValue);
    o_u64(o, m->range);
    o_u64(o, m->count);
    o_u64(o, m->encodedSize);
    o_u64(o, (uint64_t)m->offsetWidth);
}
static void op_for_enc(obuf *o, const uint64_t *v, size_t n, int arg) {
    /* arg 0: meta NULL, 1: zeroed meta, 2: batch with zeroed meta, 3: analyse then encode */
    varintFORMeta m;
    memset(&m, 0, sizeof m);
    memset(ENC, FILL_ENC, sizeof ENC);
    size_t w;
    if (arg == 3) {
        varintFORAnalyze(v, n, &m);
        o_u64(o, varintFORSize(&m));
        w = varintFOREncode(ENC, v, n, &m);
    } else if (arg == 2) {
        w = varintFORBatchEncode(ENC, v, n, &m);
    } else {
        w = varintFOREncode(ENC, v, n, arg ? &m : NULL);
    }
    o_u64(o, w);
    o_bytes(o, ENC, w);
    if (arg) {
        o_formeta(o, &m);
    }
}
static void op_for_dec(obuf *o, const uint64_t *v, size_t n, int arg) {
    varintFOREncode(ENC, v, n, NULL);
    memset(DEC, FILL_DEC, sizeof DEC);
    size_t r = arg ? varintFORBatchDecode(ENC, DEC, n) : varintFORDecode(ENC, DEC, n);
    o_u64(o, r);
    o_bytes(o, DEC, n * 8);
    o_u64(o, varintFORGetAt(ENC, n / 2));
    varintFORMeta m;
    memset(&m, 0, sizeof m);
    varintFORReadMetadata(ENC, &m);
    o_formeta(o, &m);
    o_u64(o, varintFORGetCount(ENC));
    o_u64(o, varintFORGetMinValue(ENC));
    size_t b = varintFORDecodeBlock(ENC, DEC, n / 3, 4);
    o_u64(o, b);
    o_bytes(o, DEC, b * 8);
}
static void o_pformeta(obuf *o, const varintPFORMeta *m, int with_threshold) {
    o_u64(o, m->min);
    o_u64(o, m->exceptionMarker);
    o_u64(o, (uint64_t)m->width);
    o_u64(o, m->count);
    o_u64(o, m->exceptionCount);
    if (with_threshold) {
        o_u64(o, m->thresholdValue);
        o_u64(o, m->threshold);
    }
}
static void op_pfor_enc(obuf *o, const uint64_t *v, size_t n, int arg) {
    static const uint32_t T[3] = {90, 95, 99};
    varintPFORMeta m;
    memset(&m, 0, sizeof m);
    memset(ENC, FILL_ENC, sizeof ENC);
    size_t w = varintPFOREncode(ENC, v, (uint32_t)n, T[arg], &m);
    o_u64(o, w);
    o_bytes(o, ENC, w);
    o_pformeta(o, &m, 1);
    varintPFORMeta c;
    memset(&c, 0, sizeof c);
    o_u64(o, (uint64_t)varintPFORComputeThreshold(v, (uint32_t)n, T[arg], &c));
    o_u64(o, varintPFORSize(&c));
}
static void op_pfor_dec(obuf *o, const uint64_t *v, size_t n, int arg) {
    varintPFORMeta e;
    memset(&e, 0, sizeof e);
    varintPFOREncode(ENC, v, (uint32_t)n, 95, &e);
    varintPFORMeta m;
    memset(&m, 0, sizeof m);
    if (arg) {
        varintPFORReadMeta(ENC, &m); /* the way the adaptive layer calls it */
    }
    memset(DEC, FILL_DEC, sizeof DEC);
    size_t r = varintPFORDecode(ENC, DEC, &m);
    o_u64(o, r);
    o_bytes(o, DEC, n * 8);
    o_pformeta(o, &m, 0);
    o_u64(o, varintPFORGetAt(ENC, (uint32_t)(n / 2), &m));
    o_u64(o, varintPFORGetAt(ENC, (uint32_t)(n - 1), &m));
}
static void op_group(obuf *o, const uint64_t *v, size_t n, int arg) {
    (void)arg;
    uint8_t fc = (uint8_t)(n > 64 ? 64 : n);
    memset(ENC, FILL_ENC, sizeof ENC);
    size_t w = varintGroupEncode(ENC, v, fc);
    o_u64(o, w);
    o_bytes(o, ENC, w);
    o_u64(o, varintGroupSize(v, fc));
    o_u64(o, varintGroupGetSize(ENC));
    uint8_t got = 0;
    memset(DEC, FILL_DEC, sizeof DEC);
    size_t r = varintGroupDecode(ENC, DEC, &got, 64);
    o_u64(o, r);
    o_u64(o, got);
    o_bytes(o, DEC, (size_t)fc * 8);
    uint64_t f = 0;
    o_u64(o, varintGroupGetField(ENC, (uint8_t)(fc / 2), &f));
    o_u64(o, f);
}
static void op_dict(obuf *o, const uint64_t *v, size_t n, int arg) {
    memset(ENC, FILL_ENC, sizeof ENC);
    size_t w = varintDictEncode(ENC, v, n);
    if (arg == 0) {
        o_u64(o, w);
        o_bytes(o, ENC, w);
        o_u64(o, varintDictEncodedSize(v, n));
        varintDictStats st;
        memset(&st, 0, sizeof st);
        o_u64(o, (uint64_t)varintDictGetStats(v, n, &st));
        o_u64(o, st.uniqueCount);
        o_u64(o, st.totalBytes);
        o_u64(o, st.dictBytes);
        o_u64(o, st.indexBytes);
    } else {
        memset(DEC, FILL_DEC, sizeof DEC);
        size_t r = varintDictDecodeInto(ENC, w, DEC, n);
        o_u64(o, r);
        o_bytes(o, DEC, n * 8);
        size_t oc = 0;
        uint64_t *res = varintDictDecode(ENC, w, &oc);
        o_u64(o, oc);
        if (res) {
            o_bytes(o, res, oc * 8);
            free(res);
        }
        varintDict *d = varintDictCreate();
        if (d) {
            o_u64(o, (uint64_t)varintDictBuild(d, v, n));
            o_u64(o, d->size);
            o_u64(o, (uint64_t)d->indexWidth);
            o_u64(o, (uint64_t)varintDictFind(d, v[n / 2]));
            memset(ENC2, FILL_ENC, sizeof ENC2);
            size_t w2 = varintDictEncodeWithDict(ENC2, d, v, n);
            o_u64(o, w2);
            o_bytes(o, ENC2, w2);
            varintDictFree(d);
        }
    }
}
static void op_rle(obuf *o, const uint64_t *v, size_t n, int arg) {
    varintRLEMeta m;
    memset(&m, 0, sizeof m);
    memset(ENC, FILL_ENC, sizeof ENC);
    size_t w = arg ? varintRLEEncodeWithHeader(ENC, v, n, &m) : varintRLEEncode(ENC, v, n, &m);
    o_u64(o, w);
    o_bytes(o, ENC, w);
    o_u64(o, m.count);
    o_u64(o, m.runCount);
    o_u64(o, m.encodedSize);
    memset(DEC, FILL_DEC, sizeof DEC);
    size_t r = arg ? varintRLEDecodeWithHeader(ENC, DEC, n) : varintRLEDecode(ENC, DEC, n);
    o_u64(o, r);
    o_bytes(o, DEC, n * 8);
    if (!arg) {
        o_u64(o, varintRLEGetAt(ENC, n / 2));
        o_u64(o, varintRLEGetRunCount(ENC, w));
        o_u64(o, varintRLESize(v, n));
        varintRLEMeta a;
        memset(&a, 0, sizeof a);
        o_u64(o, (uint64_t)varintRLEAnalyze(v, n, &a));
        o_u64(o, a.runCount);
        o_u64(o, a.encodedSize);
        o_u64(o, a.uniqueValues);
    }
}
static void op_elias(obuf *o, const uint64_t *v, size_t n, int arg) {
    uint64_t t[160];
    for (size_t i = 0; i < n; i++) {
        t[i] = v[i] ? v[i] : 1;
    }
    varintEliasMeta m;
    memset(&m, 0, sizeof m);
    memset(ENC, FILL_ENC, sizeof ENC);
    size_t w = arg ? varintEliasDeltaEncodeArray(ENC, t, n, &m) : varintEliasGammaEncodeArray(ENC, t, n, &m);
    o_u64(o, w);
    o_bytes(o, ENC, w);
    o_u64(o, m.count);
    o_u64(o, m.totalBits);
    o_u64(o, m.encodedBytes);
    memset(DEC, FILL_DEC, sizeof DEC);
    size_t r = arg ? varintEliasDeltaDecodeArray(ENC, m.totalBits, DEC, n) : varintEliasGammaDecodeArray(ENC, m.totalBits, DEC, n);
    o_u64(o, r);
    o_bytes(o, DEC, n * 8);
}
static void o_bpmeta(obuf *o, const varintBP128Meta *m) {
    o_u64(o, m->count);
    o_u64(o, m->blockCount);
    o_u64(o, m->encodedBytes);
    o_u64(o, m->lastBlockSize);
    o_u64(o, m->maxBitWidth);
}
static void op_bp128(obuf *o, const uint64_t *v, size_t n, int arg) {
    /* arg: 0 raw64, 1 delta64, 2 raw32, 3 delta32 */
    varintBP128Meta m;
    memset(&m, 0, sizeof m);
    memset(ENC, FILL_ENC, sizeof ENC);
    memset(DEC, FILL_DEC, sizeof DEC);
    uint64_t s[160];
    uint32_t s32[160], d32[160];
    memcpy(s, v, n * 8);
    for (size_t i = 1; i < n; i++) { /* running maximum: non-decreasing */
        if (s[i] < s[i - 1]) {
            s[i] = s[i - 1];
        }
    }
    for (size_t i = 0; i < n; i++) {
        s32[i] = (uint32_t)((arg == 3 ? s[i] : v[i]) & 0x7fffffff);
    }
    if (arg == 3) {
        for (size_t i = 1; i < n; i++) {
            if (s32[i] < s32[i - 1]) {
                s32[i] = s32[i - 1];
            }
        }
    }
    size_t w, r;
    switch (arg) {
    case 0:
        w = varintBP128Encode64(ENC, v, n, &m);
        r = varintBP128Decode64(ENC, DEC, n);
        o_bytes(o, DEC, n * 8);
        o_u64(o, varintBP128GetCount(ENC, w));
        break;
    case 1:
        w = varintBP128DeltaEncode64(ENC, s, n, &m);
        r = varintBP128DeltaDecode64(ENC, DEC, n);
        o_bytes(o, DEC, n * 8);
        break;
    case 2:
        w = varintBP128Encode32(ENC, s32, n, &m);
        memset(d32, FILL_DEC, sizeof d32);
        r = varintBP128Decode32(ENC, d32, n);
        o_bytes(o, d32, n * 4);
        break;
    default:
        w = varintBP128DeltaEncode32(ENC, s32, n, &m);
        memset(d32, FILL_DEC, sizeof d32);
        r = varintBP128DeltaDecode32(ENC, d32, n);
        o_bytes(o, d32, n * 4);
        break;
    }
    o_u64(o, w);
    o_u64(o, r);
    o_bytes(o, ENC, w);
    o_bpmeta(o, &m);
}
static void op_adaptive_enc(obuf *o, const uint64_t *v, size_t n, int arg) {
    /* arg -1: auto, 0..5 forced */
    varintAdaptiveMeta m;
    memset(&m, 0, sizeof m);
    memset(ENC, FILL_ENC, sizeof ENC);
    uint64_t t[160];
    memcpy(t, v, n * 8);
    if (arg == VARINT_ADAPTIVE_BITMAP) { /* domain: strictly increasing < 65536 */
        for (size_t i = 0; i < n; i++) {
            t[i] = 10 + i * 3;
        }
    }
    size_t w = arg < 0 ? varintAdaptiveEncode(ENC, t, n, &m) : varintAdaptiveEncodeWith(ENC, t, n, (varintAdaptiveEncodingType)arg, &m);
    o_u64(o, w);
    o_bytes(o, ENC, w);
    o_u64(o, (uint64_t)m.encodingType);
    o_u64(o, m.originalCount);
    o_u64(o, m.encodedSize);
    if (w && ENC[0] == VARINT_ADAPTIVE_FOR) {
        o_formeta(o, &m.encodingMeta.forMeta);
    } else if (w && ENC[0] == VARINT_ADAPTIVE_PFOR) {
        o_pformeta(o, &m.encodingMeta.pforMeta, 1);
    }
}
static void op_adaptive_dec(obuf *o, const uint64_t *v, size_t n, int arg) {
    uint64_t t[160];
    memcpy(t, v, n * 8);
    if (arg == VARINT_ADAPTIVE_BITMAP) {
        for (size_t i = 0; i < n; i++) {
            t[i] = 10 + i * 3;
        }
    }
    size_t w = arg < 0 ? varintAdaptiveEncode(ENC, t, n, NULL) : varintAdaptiveEncodeWith(ENC, t, n, (varintAdaptiveEncodingType)arg, NULL);
    (void)w;
    varintAdaptiveMeta m;
    memset(&m, 0, sizeof m);
    memset(DEC, FILL_DEC, sizeof DEC);
    size_t r = varintAdaptiveDecode(ENC, DEC, n, &m);
    o_u64(o, r);
    o_bytes(o, DEC, n * 8);
    o_u64(o, (uint64_t)m.encodingType);
    o_u64(o, m.originalCount);
    if (ENC[0] == VARINT_ADAPTIVE_PFOR) {
        o_pformeta(o, &m.encodingMeta.pforMeta, 0);
    }
    varintAdaptiveMeta rm;
    memset(&rm, 0, sizeof rm);
    o_u64(o, varintAdaptiveReadMeta(ENC, &rm));
    o_u64(o, (uint64_t)rm.encodingType);
    o_u64(o, rm.originalCount);
    o_u64(o, rm.encodedSize);
}
static void op_adaptive_stats(obuf *o, const uint64_t *v, size_t n, int arg) {
    (void)arg;
    varintAdaptiveDataStats s;
    memset(&s, 0, sizeof s);
    varintAdaptiveAnalyze(v, n, &s);
    o_u64(o, s.count);
    o_u64(o, s.minValue);
    o_u64(o, s.maxValue);
    o_u64(o, s.range);
    o_u64(o, s.uniqueCount);
    o_u64(o, s.avgDelta);
    o_u64(o, s.maxDelta);
    o_u64(o, s.outlierCount);
    o_bytes(o, &s.uniqueRatio, 4);
    o_bytes(o, &s.outlierRatio, 4);
    o_u64(o, (uint64_t)s.isSorted | (uint64_t)s.isReverseSorted << 1 | (uint64_t)s.fitsInBitmapRange << 2);
    o_u64(o, (uint64_t)varintAdaptiveSelectEncoding(&s));
    o_u64(o, varintAdaptiveCountUnique(v, n));
    o_u64(o, (uint64_t)varintAdaptiveCheckSorted(v, n));
}
static void op_float(obuf *o, const uint64_t *v, size_t n, int arg) {
    double d[160], out[160];
    for (size_t i = 0; i < n; i++) {
        d[i] = (double)(v[i] % 100000) / 7.0 + (double)i;
        if (i % 9 == 8) {
            d[i] = 0.0;
        }
    }
    memset(ENC, FILL_ENC, sizeof ENC);
    size_t w = varintFloatEncode(ENC, d, n, (varintFloatPrecision)(arg & 3), (varintFloatEncodingMode)(arg >> 2));
    o_u64(o, w);
    o_bytes(o, ENC, w);
    memset(out, FILL_DEC, sizeof out);
    size_t r = varintFloatDecode(ENC, n, out);
    o_u64(o, r);
    o_bytes(o, out, n * 8);
}
static void op_bitmap(obuf *o, const uint64_t *v, size_t n, int arg) {
    varintBitmap *a = varintBitmapCreate(), *b = varintBitmapCreate();
    if (!a || !b) {
        return;
    }
    for (size_t i = 0; i < n; i++) {
        varintBitmapAdd(a, (uint16_t)v[i]);
        varintBitmapAdd(b, (uint16_t)(v[i] * 3));
    }
    if (arg == 1) {
        varintBitmapAddRange(a, 100, 5000);
    } else if (arg == 2) {
        varintBitmapAddRange(a, 100, 5000);
        varintBitmapAdd(a, 7);
    }
    memset(ENC, FILL_ENC, sizeof ENC);
    static uint8_t big[9000];
    memset(big, FILL_ENC, sizeof big);
    size_t w = varintBitmapEncode(a, big);
    o_u64(o, w);
    o_bytes(o, big, w > 600 ? 600 : w);
    o_u64(o, varintBitmapCardinality(a));
    varintBitmap *d = varintBitmapDecode(big, w);
    if (d) {
        o_u64(o, varintBitmapCardinality(d));
        o_u64(o, (uint64_t)varintBitmapContains(d, (uint16_t)v[0]));
        varintBitmapFree(d);
    }
    varintBitmap *r1 = varintBitmapOr(a, b), *r2 = varintBitmapAnd(a, b), *r3 = varintBitmapXor(a, b);
    static uint16_t arr[65536];
    if (r1 && r2 && r3) {
        uint32_t c = varintBitmapToArray(r3, arr);
        o_u64(o, varintBitmapCardinality(r1));
        o_u64(o, varintBitmapCardinality(r2));
        o_u64(o, c);
        o_bytes(o, arr, (c > 200 ? 200 : c) * 2);
    }
    varintBitmapFree(r1);
    varintBitmapFree(r2);
    varintBitmapFree(r3);
    varintBitmapFree(a);
    varintBitmapFree(b);
}
static void op_scalar(obuf *o, const uint64_t *v, size_t n, int arg) {
    (void)arg;
    for (size_t i = 0; i < n && i < 24; i++) {
        uint8_t b[16];
        memset(b, FILL_ENC, sizeof b);
        int l = (int)varintTaggedPut64(b, v[i]);
        o_bytes(o, b, (size_t)l);
        uint64_t g = 0;
        o_u64(o, (uint64_t)varintTaggedGet64(b, &g));
        o_u64(o, g);
        memset(b, FILL_ENC, sizeof b);
        l = (int)varintExternalPut(b, v[i]);
        o_bytes(o, b, (size_t)l);
        o_u64(o, varintExternalGet(b, (varintWidth)l));
    }
}

static void op_dimension(obuf *o, const uint64_t *v, size_t n, int arg) {
    /* bit / byte matrices of different shapes built one after another in the same static buffer */
    static const int SH[3][2] = {{4, 10}, {4, 12}, {6, 9}};
    static uint8_t MAT[256];
    int R = SH[arg][0], C = SH[arg][1];
    memset(MAT, 0, sizeof MAT);
    varintDimensionPair dim = varintDimensionPairEncode(MAT, (size_t)R, (size_t)C);
    o_u64(o, (uint64_t)dim);
    for (int r = 0; r < R; r++) {
        for (int c = 0; c < C; c++) {
            if (((size_t)(r * C + c) + v[(size_t)(r + c) % n]) & 1) {
                varintDimensionPairEntrySetBit(MAT, (size_t)r, (size_t)c, true, dim);
            }
        }
    }
    o_bytes(o, MAT, 2 + (size_t)(R * C + 7) / 8);
    for (int r = 0; r < R; r++) {
        for (int c = 0; c < C; c++) {
            o_u64(o, (uint64_t)varintDimensionPairEntryGetBit(MAT, (size_t)r, (size_t)c, dim));
        }
    }
    o_u64(o, (uint64_t)varintDimensionPairEntryToggleBit(MAT, (size_t)(R - 1), (size_t)(C - 1), dim));
    memset(MAT, 0, sizeof MAT);
    dim = varintDimensionPairEncode(MAT, (size_t)R, (size_t)C);
    for (int r = 0; r < R; r++) {
        for (int c = 0; c < C; c++) {
            varintDimensionPairEntrySetUnsigned(MAT, (size_t)r, (size_t)c, (uint64_t)(r * 16 + c), VARINT_WIDTH_8B, dim);
        }
    }
    o_bytes(o, MAT, 2 + (size_t)(R * C));
}

static void op_dimension_loaded(obuf *o, const uint64_t *v, size_t n, int arg) {
    /* a stored matrix loaded into a reused work buffer (its header is copied in, not encoded in place), then read and
     * written cell by cell */
    static const int SH[4][2] = {{4, 10}, {4, 20}, {6, 9}, {3, 7}};
    static uint8_t MAT[2048];
    int R = SH[arg & 3][0], C = SH[arg & 3][1], dbl = (arg >> 2) & 1, bit = (arg >> 3) & 1;
    size_t ew = dbl ? 8 : 2;
    uint8_t stored[2048];
    memset(stored, 0, sizeof stored);
    /* the header bytes of every shape are produced once, before any matrix is accessed: between two "loaded matrix"
     * operations no library function other than the cell accessors runs */
    static uint8_t HDR[4][8];
    static varintDimensionPair HDIM[4];
    static int hdr_ready = 0;
    if (!hdr_ready) {
        for (int k = 0; k < 4; k++) {
            HDIM[k] = varintDimensionPairEncode(HDR[k], (size_t)SH[k][0], (size_t)SH[k][1]);
        }
        hdr_ready = 1;
    }
    memcpy(stored, HDR[arg & 3], 2);
    varintDimensionPair dim = HDIM[arg & 3];
    for (size_t i = 0; i < (size_t)(R * C) * ew; i++) {
        stored[2 + i] = (uint8_t)(i * 7 + v[i % n]);
    }
    memcpy(MAT, stored, sizeof MAT);
    o_u64(o, (uint64_t)dim);
    for (int r = 0; r < R; r++) {
        for (int c = 0; c < C; c++) {
            if (bit) {
                o_u64(o, (uint64_t)varintDimensionPairEntryGetBit(MAT, (size_t)r, (size_t)c, dim));
            } else if (dbl) {
                double d = varintDimensionPairEntryGetDouble(MAT, (size_t)r, (size_t)c, dim);
                uint64_t bits;
                memcpy(&bits, &d, 8);
                o_u64(o, bits);
            } else {
                o_u64(o, varintDimensionPairEntryGetUnsigned(MAT, (size_t)r, (size_t)c, VARINT_WIDTH_16B, dim));
            }
        }
    }
    for (int r = R - 1; r >= 0; r--) {
        for (int c = 0; c < C; c += 2) {
            if (bit) {
                varintDimensionPairEntrySetBit(MAT, (size_t)r, (size_t)c, (r + c) % 3 != 0, dim);
                o_u64(o, (uint64_t)varintDimensionPairEntryToggleBit(MAT, (size_t)r, (size_t)(C - 1 - c / 2), dim));
            } else if (dbl) {
                varintDimensionPairEntrySetDouble(MAT, (size_t)r, (size_t)c, 0.5 + r * 100 + c, dim);
            } else {
                varintDimensionPairEntrySetUnsigned(MAT, (size_t)r, (size_t)c, (uint64_t)(r * 1000 + c), VARINT_WIDTH_16B, dim);
            }
        }
    }
    o_bytes(o, MAT, 2 + (size_t)(R * C) * ew);
}

static uint64_t fnv(const void *p, size_t n) {
    const uint8_t *b = (const uint8_t *)p;
    uint64_t h = 1469598103934665603ULL;
    for (size_t i = 0; i < n; i++) {
        h = (h ^ b[i]) * 1099511628211ULL;
    }
    return h;
}
static void op_large(obuf *o, const uint64_t *unused, size_t unused_n, int arg) {
    /* arg: low bit = which large input; arg >> 1: 0 adaptive analysis + auto encode, 1 PFOR, 2 dict, 3 FOR/RLE/BP128 */
    (void)unused;
    (void)unused_n;
    const uint64_t *v = INL[arg & 1];
    size_t n = NLARGE, w = 0, r = 0;
    memset(ENCL, FILL_ENC, sizeof ENCL);
    memset(DECL, FILL_DEC, sizeof DECL);
    switch (arg >> 1) {
    case 0: {
        varintAdaptiveDataStats st;
        memset(&st, 0, sizeof st);
        varintAdaptiveAnalyze(v, n, &st);
        o_u64(o, st.uniqueCount);
        o_u64(o, st.range);
        o_u64(o, st.avgDelta);
        o_u64(o, (uint64_t)varintAdaptiveSelectEncoding(&st));
        o_u64(o, varintAdaptiveCountUnique(v, n));
        varintAdaptiveMeta m;
        memset(&m, 0, sizeof m);
        w = varintAdaptiveEncode(ENCL, v, n, &m);
        o_u64(o, (uint64_t)m.encodingType);
        r = varintAdaptiveDecode(ENCL, DECL, n, NULL);
        break;
    }
    case 1: {
        varintPFORMeta m, d;
        memset(&m, 0, sizeof m);
        memset(&d, 0, sizeof d);
        w = varintPFOREncode(ENCL, v, (uint32_t)n, 95, &m);
        o_u64(o, m.exceptionCount + m.thresholdValue);
        r = varintPFORDecode(ENCL, DECL, &d);
        break;
    }
    case 2:
        o_u64(o, varintDictEncodedSize(v, n));
        w = varintDictEncode(ENCL, v, n);
        r = w ? varintDictDecodeInto(ENCL, w, DECL, n) : 0;
        break;
    default: {
        varintFORMeta fm;
        memset(&fm, 0, sizeof fm);
        w = varintFOREncode(ENCL, v, n, &fm);
        o_u64(o, fnv(ENCL, w));
        varintRLEMeta rm;
        memset(&rm, 0, sizeof rm);
        o_u64(o, (uint64_t)varintRLEAnalyze(v, n, &rm));
        o_u64(o, rm.runCount + rm.uniqueValues);
        varintBP128Meta bm;
        memset(&bm, 0, sizeof bm);
        w = varintBP128Encode64(ENCL, v, n, &bm);
        r = varintBP128Decode64(ENCL, DECL, n);
        /* the count header (3 bytes for 10500 values) asked for with every available-byte count around it */
        for (size_t sb = 0; sb <= 5; sb++) {
            o_u64(o, varintBP128GetCount(ENCL, sb));
        }
        o_u64(o, varintBP128GetCount(ENCL, w));
        break;
    }
    }
    o_u64(o, w);
    o_u64(o, r);
    o_u64(o, fnv(ENCL, w));
    o_u64(o, fnv(DECL, n * 8));
    o_bytes(o, ENCL, w > 600 ? 600 : w);
}

typedef struct {
    const char *name;
    opfn fn;
    int input;
    int arg;
    int in_triples;
} opdef;
static opdef OPS[200];
static int NOPS;
static void add(const char *name, opfn fn, int arg, int inputs_mask, int triples) {
    for (int i = 0; i < NIN; i++) {
        if (inputs_mask & (1 << i)) {
            OPS[NOPS].name = name;
            OPS[NOPS].fn = fn;
            OPS[NOPS].input = i;
            OPS[NOPS].arg = arg;
            OPS[NOPS].in_triples = triples && (i == 2 || i == 4);
            NOPS++;
        }
    }
}
static void build_ops(void) {
    const int ALL = 0x1f, MID = 0x16 /* inputs 1,2,4 */, TWO = 0x14 /* 2,4: equal counts */, TWIN = 0x20 /* input 5: the twin of input 2 */;
    add("delta.EncodeUnsigned/DecodeUnsigned", op_delta_u, 0, MID | TWIN, 0);
    add("delta.Encode/Decode", op_delta_s, 0, TWO, 0);
    add("FOR.Encode(NULL meta)", op_for_enc, 0, ALL | TWIN, 1);
    add("FOR.Encode(zeroed meta)", op_for_enc, 1, MID, 1);
    add("FOR.BatchEncode", op_for_enc, 2, 0x1c, 0);
    add("FOR.Analyze+Encode", op_for_enc, 3, TWO, 1);
    add("FOR.Decode/GetAt/ReadMetadata", op_for_dec, 0, MID | 8, 1);
    add("FOR.BatchDecode", op_for_dec, 1, 0x18, 0);
    add("PFOR.Encode(90)", op_pfor_enc, 0, TWO, 0);
    add("PFOR.Encode(95)", op_pfor_enc, 1, ALL | TWIN, 1);
    add("PFOR.Encode(99)", op_pfor_enc, 2, TWO, 0);
    add("PFOR.Decode(zeroed meta)", op_pfor_dec, 0, MID | 8 | TWIN, 1);
    add("PFOR.Decode(ReadMeta first)", op_pfor_dec, 1, TWO, 1);
    add("group.Encode/Decode/GetField", op_group, 0, MID | TWIN, 0);
    add("dict.Encode/Size/Stats", op_dict, 0, MID | 8 | TWIN, 1);
    add("dict.Decode/DecodeInto/Build", op_dict, 1, MID, 1);
    add("RLE.Encode/Decode/GetAt", op_rle, 0, MID | TWIN, 0);
    add("RLE.EncodeWithHeader/DecodeWithHeader", op_rle, 1, TWO, 0);
    add("elias.Gamma", op_elias, 0, TWO, 0);
    add("elias.Delta", op_elias, 1, TWO, 0);
    add("BP128.Encode64/Decode64", op_bp128, 0, 0x1c, 0);
    add("BP128.DeltaEncode64/DeltaDecode64", op_bp128, 1, 0x1c, 0);
    add("BP128.Encode32/Decode32", op_bp128, 2, 0x18, 0);
    add("BP128.DeltaEncode32/DeltaDecode32", op_bp128, 3, 0x18, 0);
    add("adaptive.Encode", op_adaptive_enc, -1, ALL | TWIN, 1);
    for (int t = 0; t <= 5; t++) {
        static const char *N[6] = {"adaptive.EncodeWith(DELTA)", "adaptive.EncodeWith(FOR)", "adaptive.EncodeWith(PFOR)", "adaptive.EncodeWith(DICT)", "adaptive.EncodeWith(BITMAP)", "adaptive.EncodeWith(TAGGED)"};
        add(N[t], op_adaptive_enc, t, (t == 1 || t == 2) ? TWO | TWIN : TWO, t == 1 || t == 2);
    }
    add("adaptive.Decode(auto)", op_adaptive_dec, -1, MID, 1);
    add("adaptive.Decode(FOR)", op_adaptive_dec, 1, TWO, 1);
    add("adaptive.Decode(PFOR)", op_adaptive_dec, 2, TWO, 1);
    add("adaptive.Decode(DICT)", op_adaptive_dec, 3, 4, 0);
    add("adaptive.Decode(BITMAP)", op_adaptive_dec, 4, 4, 0);
    add("adaptive.Analyze/Select", op_adaptive_stats, 0, MID | TWIN, 0);
    add("float.Encode/Decode(HIGH,COMMON)", op_float, 1 | (1 << 2), TWO, 0);
    add("float.Encode/Decode(FULL,DELTA)", op_float, 0 | (2 << 2), 4, 0);
    add("float.Encode/Decode(LOW,INDEPENDENT)", op_float, 3, 4, 0);
    add("bitmap.array ops", op_bitmap, 0, 4, 0);
    add("bitmap.runs ops", op_bitmap, 1, 4, 0);
    add("bitmap.dense ops", op_bitmap, 2, 4, 0);
    add("scalar.tagged/external", op_scalar, 0, 4, 0);
    add("dimension.bit/byte matrix 4x10", op_dimension, 0, 4, 0);
    add("dimension.bit/byte matrix 4x12", op_dimension, 1, 4, 0);
    add("dimension.bit/byte matrix 6x9", op_dimension, 2, 4, 0);
    add("dimension.loaded u16 matrix 4x10", op_dimension_loaded, 0, 4, 0);
    add("dimension.loaded u16 matrix 4x20", op_dimension_loaded, 1, 4, 0);
    add("dimension.loaded u16 matrix 6x9", op_dimension_loaded, 2, 4, 0);
    add("dimension.loaded double matrix 3x7", op_dimension_loaded, 3 | 4, 4, 0);
    add("dimension.loaded double matrix 4x10", op_dimension_loaded, 0 | 4, 4, 0);
    add("dimension.loaded bit matrix 4x10", op_dimension_loaded, 0 | 8, 4, 0);
    add("dimension.loaded bit matrix 4x20", op_dimension_loaded, 1 | 8, 4, 0);
    add("dimension.loaded bit matrix 6x9", op_dimension_loaded, 2 | 8, 4, 0);
    /* 10500-element inputs (input index is irrelevant for them: they read INL) */
    add("large adaptive analyse+encode [stride-10 constant]", op_large, 0, 1, 0);
    add("large adaptive analyse+encode [scattered]", op_large, 1, 1, 0);
    add("large PFOR [stride-10 constant]", op_large, 2, 1, 0);
    add("large dict [stride-10 constant]", op_large, 4, 1, 0);
    add("large dict [scattered]", op_large, 5, 1, 0);
    add("large FOR/RLE/BP128 [scattered]", op_large, 7, 1, 0);
}

/* every operation reads its input from the SAME caller buffer (a caller that reuses one array for successive data
 * sets): whatever the library may remember about "the array at this address" is wrong for the next call */
static uint64_t WORK[160];
static void run_op(int i, obuf *o) {
    o->len = 0;
    o->overflow = 0;
    memcpy(WORK, IN[OPS[i].input], sizeof WORK);
    OPS[i].fn(o, WORK, INN[OPS[i].input], OPS[i].arg);
}

/* ---------------------------------------------------------------- residue */
static volatile uint64_t paint_sink;
__attribute__((noinline)) static void paint_stack(uint64_t word) {
    volatile uint64_t a[8192]; /* 64 KiB below the caller's frame */
    for (int i = 0; i < 8192; i++) {
        a[i] = word;
    }
    paint_sink = a[word % 8192];
}

/* ---------------------------------------------------------------- baselines via exec */
static obuf *BASE; /* NOPS entries */

static int exec_baseline_env(const char *self, int i, int env, obuf *out) {
    int fd[2];
    if (pipe(fd)) {
        return -1;
    }
    pid_t pid = fork();
    if (pid == 0) {
        dup2(fd[1], 1);
        close(fd[0]);
        char num[16], envs[16];
        snprintf(num, sizeof num, "%d", i);
        snprintf(envs, sizeof envs, "%d", env);
        execl(self, self, "--one-op", num, envs, (char *)NULL);
        _exit(127);
    }
    close(fd[1]);
    size_t got = 0;
    uint8_t *p = (uint8_t *)out;
    for (;;) {
        ssize_t r = read(fd[0], p + got, sizeof(obuf) - got);
        if (r <= 0) {
            break;
        }
        got += (size_t)r;
    }
    close(fd[0]);
    int st = 0;
    waitpid(pid, &st, 0);
    if (!WIFEXITED(st) || WEXITSTATUS(st) != 0 || got < 8) {
        return -1;
    }
    return 0;
}

static int exec_baseline(const char *self, int i, obuf *out) { return exec_baseline_env(self, i, 0, out); }

/* ---------------------------------------------------------------- child execution */
typedef struct {
    obuf o;
    int done;
    int stage; /* index (within the history) of the operation in flight */
} shm_t;
static shm_t *SHM;

/* hist: up to 3 op indices (last one is observed); residue parameters */
static int OUTFILL = -1; /* -1: baseline output-buffer contents; otherwise the byte both kinds of output buffer hold before the call */
static int run_child(const int *hist, int nh, int paint, uint64_t word, int fill, int recycle, const char **why) {
    FILL_ENC = OUTFILL < 0 ? 0x11 : OUTFILL;
    FILL_DEC = OUTFILL < 0 ? 0x22 : OUTFILL;
    SHM->done = 0;
    SHM->stage = 0;
    SHM->o.len = 0;
    pid_t pid = fork();
    if (pid == 0) {
        vm_policy pol;
        memset(&pol, 0, sizeof pol);
        pol.fill = (uint8_t)fill;
        pol.recycle = recycle;
        vm_begin_case(&pol);
        static obuf scratch;
        for (int k = 0; k < nh; k++) {
            SHM->stage = k;
            if (paint) {
                paint_stack(word);
            }
            run_op(hist[k], k == nh - 1 ? &SHM->o : &scratch);
        }
        SHM->done = 1;
        _exit(0);
    }
    int st = 0;
    waitpid(pid, &st, 0);
    if (WIFSIGNALED(st)) {
        *why = "crash";
        return -1;
    }
    if (WIFEXITED(st) && WEXITSTATUS(st) == 77) {
        *why = "uninitialised_use";
        return -1;
    }
    if (!WIFEXITED(st) || WEXITSTATUS(st) != 0 || !SHM->done) {
        *why = "abnormal_exit";
        return -1;
    }
    return 0;
}

static void compare(const int *hist, int nh, const char *how) {
    int c = hist[nh - 1];
    const obuf *b = &BASE[c];
    if (SHM->o.len != b->len || memcmp(SHM->o.b, b->b, b->len)) {
        size_t at = 0;
        while (at < b->len && at < SHM->o.len && SHM->o.b[at] == b->b[at]) {
            at++;
        }
        char hs[300] = "";
        for (int k = 0; k < nh; k++) {
            snprintf(hs + strlen(hs), sizeof hs - strlen(hs), "%s%s[input %d]", k ? " ; " : "", OPS[hist[k]].name, OPS[hist[k]].input);
        }
        vh_fail(OPS[c].name, "result_depends_on_history", "untagged", "%s: after {%s} the outputs of the last call differ from its fresh-process baseline at observation byte %zu (len %u vs %u)", how, hs, at, SHM->o.len, b->len);
    }
}

int main(int argc, char **argv) {
    build_inputs();
    build_large_inputs();
    build_ops();
    /* child mode: run one op, dump observations (optional 4th argument: environment stream) */
    if ((argc == 3 || argc == 4) && !strcmp(argv[1], "--one-op")) {
        static obuf o;
        ENV_STREAM = argc == 4 ? atoi(argv[3]) : 0;
        run_op(atoi(argv[2]), &o);
        o.overflow |= env_calls ? 0x100 : 0; /* bit 8: the operation consulted the environment */
        size_t n = sizeof(uint32_t) * 2 + o.len;
        if (write(1, &o, n) != (ssize_t)n) {
            return 2;
        }
        return 0;
    }
    vh_init(argc, argv);
    vm_init((size_t)64 << 20);
    SHM = mmap(NULL, sizeof(shm_t), PROT_READ | PROT_WRITE, MAP_SHARED | MAP_ANONYMOUS, -1, 0);
    BASE = calloc((size_t)NOPS, sizeof(obuf));
    char self[512];
    ssize_t sl = readlink("/proc/self/exe", self, sizeof self - 1);
    if (sl <= 0) {
        return 3;
    }
    self[sl] = 0;
    for (int i = 0; i < NOPS; i++) {
        if (exec_baseline(self, i, &BASE[i])) {
            fprintf(stderr, "baseline of op %d (%s) failed\n", i, OPS[i].name);
            vh_fail(OPS[i].name, "crash", "untagged", "operation fails when run alone in a fresh process");
        }
    }
    vh_infostr("operations", "%d", NOPS);
    /* environment: every operation once more in a fresh process under the other answer stream of the environment seam
     * (rand/random/drand48/time/clock ...): the observations must not change */
    if (vh_section_begin("environment")) {
        static obuf alt;
        int consulted = 0;
        for (int i = 0; i < NOPS; i++) {
            if (!vh_case()) {
                continue;
            }
            for (int env = 1; env <= 2; env++) {
                memset(&alt, 0, sizeof alt);
                if (exec_baseline_env(self, i, env, &alt)) {
                    vh_fail(OPS[i].name, "crash", "untagged", "operation fails in a fresh process under environment stream %d", env);
                    continue;
                }
                consulted |= (alt.overflow & 0x100) != 0;
                if (alt.len != BASE[i].len || memcmp(alt.b, BASE[i].b, alt.len)) {
                    size_t at = 0;
                    while (at < alt.len && at < BASE[i].len && alt.b[at] == BASE[i].b[at]) {
                        at++;
                    }
                    vh_fail(OPS[i].name, "result_depends_on_environment", "untagged", "%s[input %d]: the same call in a fresh process gives different observations (first at byte %zu) when libc's hidden state (rand/random/time/clock) answers from stream %d instead of stream 0", OPS[i].name, OPS[i].input, at, env);
                    break;
                }
                vh_count("cases", 1);
                vh_count("calls", 1);
            }
            if (BASE[i].overflow & 0x100) {
                consulted = 1;
            }
        }
        vh_count("operations_consulting_the_environment", (uint64_t)consulted);
        vh_class("environment/streams", "%d operations x 2 alternative streams", NOPS);
    }
    int msan = 0;
#ifdef VH_MSAN
    msan = 1;
#endif
    const char *why = "";
    /* pairs */
    if (vh_section_begin("pairs")) {
        int complete = 1;
        for (int p = 0; p < NOPS && complete; p++) {
            for (int c = 0; c < NOPS; c++) {
                if (!vh_case()) {
                    continue;
                }
                if (vh_deadline_hit()) {
                    complete = 0;
                    break;
                }
                int h[2] = {p, c};
                if (run_child(h, 2, 0, 0, 0xCD, 0, &why)) {
                    vh_fail(OPS[h[SHM->stage & 1]].name, why, "untagged", "pair {%s[input %d] ; %s[input %d]}: died in call %d", OPS[p].name, OPS[p].input, OPS[c].name, OPS[c].input, SHM->stage + 1);
                } else {
                    compare(h, 2, "pair");
                }
                vh_count("cases", 1);
                vh_count("calls", 2);
            }
            char ck[96];
            snprintf(ck, sizeof ck, "pairs/first=%s#%d", OPS[p].name, OPS[p].input);
            vh_class(ck, "x all %d operations", NOPS);
        }
        vh_flag("all_pairs", complete);
    }
    /* triples over the subset that shares element counts */
    if (vh_thorough && vh_section_begin("triples")) {
        int sub[64], ns = 0;
        for (int i = 0; i < NOPS && ns < 40; i++) {
            if (OPS[i].in_triples) {
                sub[ns++] = i;
            }
        }
        vh_infostr("triple_subset", "%d", ns);
        int complete = 1;
        for (int a = 0; a < ns && complete; a++) {
            for (int b = 0; b < ns; b++) {
                for (int c = 0; c < ns; c++) {
                    if (!vh_case()) {
                        continue;
                    }
                    if (vh_deadline_hit()) {
                        complete = 0;
                        break;
                    }
                    int h[3] = {sub[a], sub[b], sub[c]};
                    if (run_child(h, 3, 0, 0, 0xCD, 0, &why)) {
                        vh_fail(OPS[h[SHM->stage % 3]].name, why, "untagged", "triple {%s ; %s ; %s}: died in call %d", OPS[h[0]].name, OPS[h[1]].name, OPS[h[2]].name, SHM->stage + 1);
                    } else {
                        compare(h, 3, "triple");
                    }
                    vh_count("cases", 1);
                    vh_count("calls", 3);
                }
            }
        }
        vh_class("triples", "%d^3 ordered triples", ns);
        vh_flag("all_triples", complete);
    }
    /* residue: one deviation from the clean environment */
    if (!msan && vh_section_begin("residue")) {
        uint64_t words[24];
        int nw = 0;
        words[nw++] = 0;
        words[nw++] = ~0ULL;
        words[nw++] = 0xA5A5A5A5A5A5A5A5ULL;
        for (uint64_t k = 1; k <= 8; k++) {
            words[nw++] = k;
        }
        words[nw++] = 21;
        words[nw++] = 130;
        words[nw++] = 5;
        words[nw++] = 0x0000001500000015ULL; /* two packed 32-bit 21s */
        static const int fills[3] = {0x00, 0xff, 0xa5};
        int complete = 1;
        for (int c = 0; c < NOPS && complete; c++) {
            for (int wi = 0; wi < nw; wi++) {
                for (int fi = 0; fi < 3; fi++) {
                    for (int rc = 0; rc < 2; rc++) {
                        if (!vh_case()) {
                            continue;
                        }
                        if (vh_deadline_hit()) {
                            complete = 0;
                            break;
                        }
                        /* the caller's output buffers hold 00 / ff / the baseline pattern before the call */
                        static const int OF[3] = {0x00, 0xff, -1};
                        OUTFILL = OF[(wi + fi) % 3];
                        /* with recycling the operation is run twice so that the second run receives the first one's freed blocks */
                        int h[2] = {c, c};
                        int nh = rc ? 2 : 1;
                        if (run_child(h + (2 - nh), nh, 1, words[wi], fills[fi], rc, &why)) {
                            vh_fail(OPS[c].name, why, "untagged", "residue {stack word 0x%" PRIx64 ", heap fill %02x, recycle %d, output buffers prefilled %02x} before %s[input %d]", words[wi], fills[fi], rc, OUTFILL & 0xff, OPS[c].name, OPS[c].input);
                        } else {
                            char how[128];
                            snprintf(how, sizeof how, "residue {stack word 0x%" PRIx64 ", heap fill %02x, recycle %d, output buffers prefilled %s}", words[wi], fills[fi], rc, OUTFILL == 0 ? "00" : OUTFILL == 0xff ? "ff" : "as baseline");
                            compare(h + (2 - nh), nh, how);
                        }
                        OUTFILL = -1;
                        vh_count("cases", 1);
                        vh_count("calls", (uint64_t)nh);
                    }
                }
            }
            char ck[96];
            snprintf(ck, sizeof ck, "residue/%s#%d", OPS[c].name, OPS[c].input);
            vh_class(ck, "%d stack words x 3 heap fills x 2 recycle policies", nw);
        }
        vh_flag("all_residues", complete);
    }
    vh_write_out();
    return 0;
}
