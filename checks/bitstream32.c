/* 32-bit instantiation of src/varintBitstream.h (VBITS / VBITSVAL = uint32_t), exported through wrappers */
#include <stddef.h>
#include <stdint.h>
#define VBITS uint32_t
#define VBITSVAL uint32_t
#include "varintBitstream.h"
void bs32_set(void *dst, size_t off, size_t w, uint64_t v) { varintBitstreamSet((vbits *)dst, off, w, (vbitsVal)v); }
uint64_t bs32_get(const void *src, size_t off, size_t w) { return varintBitstreamGet((const vbits *)src, off, w); }
