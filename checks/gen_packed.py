#!/usr/bin/env python3
"""Generate checks/packed_inst.h: every packed-array instantiation C09 explores.

 default flavour : width 1..32 x slot in {8,16,32,64} with width <= slot + gcd(width, slot)
                   (an element then never spans more than two slots)
 compact flavour : PACK_STORAGE_COMPACT with its automatic slot type, same rule
 in-tree variants: exactly the parameter sets used in src/varintPackedTest.c and src/varintDimension.c
"""
from math import gcd
import os

out = []
insts = []
SLOT = {8: "uint8_t", 16: "uint16_t", 32: "uint32_t", 64: "uint64_t"}


SPECS = []


def emit(idx, width, slotbits, compact, extra_defs, tag, lentype="uint32_t", maxel=0xffffffff):
    SPECS.append(dict(width=width, slotbits=slotbits, compact=compact, extra_defs=extra_defs, tag=tag, lentype=lentype, maxel=maxel,
                      intree=tag.startswith("in-tree")))


def emit_real(idx, width, slotbits, compact, extra_defs, tag, lentype, maxel, intree):
    prefix = "pk%d_" % idx
    out.append("/* instance %d: %s */" % (idx, tag))
    out.append("#define PACK_STORAGE_BITS %d" % width)
    out.append("#define PACK_FUNCTION_PREFIX %s" % prefix)
    out.append("#define PACK_STATIC")
    for d in extra_defs:
        out.append("#define %s" % d)
    out.append('#include "varintPacked.h"')
    f = "%s%d" % (prefix, width)
    out.append("static void w%d_set(void *d, uint64_t o, uint64_t v) { %sSet(d, (%s)o, v); }" % (idx, f, lentype))
    out.append("static uint64_t w%d_get(const void *d, uint64_t o) { return %sGet(d, (%s)o); }" % (idx, f, lentype))
    out.append("static void w%d_incr(void *d, uint64_t o, int64_t by) { %sSetIncr(d, (%s)o, by); }" % (idx, f, lentype))
    out.append("static void w%d_half(void *d, uint64_t o) { %sSetHalf(d, (%s)o); }" % (idx, f, lentype))
    out.append("static uint64_t w%d_bsearch(const void *d, uint64_t len, uint64_t v) { return %sBinarySearch(d, (%s)len, v); }" % (idx, f, lentype))
    out.append("static int64_t w%d_member(const void *d, uint64_t len, uint64_t v) { return %sMember(d, (%s)len, v); }" % (idx, f, lentype))
    out.append("static void w%d_insert(void *d, uint64_t len, uint64_t o, uint64_t v) { %sInsert(d, (%s)len, (%s)o, v); }" % (idx, f, lentype, lentype))
    out.append("static void w%d_insert_sorted(void *d, uint64_t len, uint64_t v) { %sInsertSorted(d, (%s)len, v); }" % (idx, f, lentype))
    out.append("static void w%d_delete(void *d, uint64_t len, uint64_t o) { %sDelete(d, (%s)len, (%s)o); }" % (idx, f, lentype, lentype))
    out.append("static int w%d_delete_member(void *d, uint64_t len, uint64_t v) { return %sDeleteMember(d, (%s)len, v); }" % (idx, f, lentype))
    out.append("")
    insts.append((idx, width, slotbits, compact, tag, maxel, intree))


idx = 0
for width in range(1, 33):
    for slotbits in (8, 16, 32, 64):
        if width <= slotbits + gcd(width, slotbits):
            emit(idx, width, slotbits, 0, ["PACK_STORAGE_SLOT_STORAGE_TYPE %s" % SLOT[slotbits]],
                 "default w%d slot%d" % (width, slotbits))
            idx += 1
for width in range(1, 33):
    slotbits = 8 if width <= 16 else 16
    if width <= slotbits + gcd(width, slotbits):
        emit(idx, width, slotbits, 1, ["PACK_STORAGE_COMPACT"], "compact w%d slot%d(auto)" % (width, slotbits))
        idx += 1
intree_first = idx
# in-tree variants
emit(idx, 12, 32, 0, ["PACK_STORAGE_SLOT_STORAGE_TYPE uint32_t", "PACK_STORAGE_VALUE_TYPE uint16_t",
                      "PACK_STORAGE_MICRO_PROMOTION_TYPE uint32_t"], "in-tree: 12/u32 slot/u16 value/u32 promotion (varintPackedTest.c)")
idx += 1
emit(idx, 12, 8, 1, ["PACK_STORAGE_COMPACT", "PACK_STORAGE_SLOT_STORAGE_TYPE uint8_t", "PACK_STORAGE_VALUE_TYPE uint16_t",
                     "PACK_STORAGE_MICRO_PROMOTION_TYPE uint64_t"], "in-tree: 12 compact u8 slot/u64 promotion (varintPackedTest.c)")
idx += 1
emit(idx, 13, 32, 0, ["PACK_STORAGE_VALUE_TYPE uint32_t"], "in-tree: 13 default (varintPackedTest.c)")
idx += 1
emit(idx, 14, 32, 0, ["PACK_STORAGE_VALUE_TYPE uint32_t"], "in-tree: 14 default (varintPackedTest.c)")
idx += 1
emit(idx, 3, 32, 0, [], "in-tree: 3 default (varintPackedTest.c)")
idx += 1
emit(idx, 12, 8, 0, ["PACK_MAX_ELEMENTS 3700", "PACK_STORAGE_SLOT_STORAGE_TYPE uint8_t",
                     "PACK_STORAGE_MICRO_PROMOTION_TYPE uint16_t"], "in-tree: 12/u8 slot/u16 promotion/max 3700 (varintDimension.c)",
     lentype="uint16_t", maxel=3700)
idx += 1
intree_last = idx
# narrow length types (PACK_MAX_ELEMENTS is a documented option): the element index is a uint8_t / uint16_t while the
# slot index and the bit offset exceed that type's range when the value is wider than the slot
for (width, slotbits, compact, maxel) in ((12, 8, 0, 60000), (12, 8, 1, 250), (32, 16, 0, 60000), (3, 8, 0, 250), (17, 16, 0, 60000),
                                          (24, 16, 0, 250), (9, 8, 0, 65535), (5, 64, 0, 255), (16, 8, 1, 255), (31, 32, 0, 65535),
                                          (7, 8, 0, 200), (20, 16, 1, 40000),
                                          # every rung of the PACK_MAX_ELEMENTS ladder, both sides of each limit
                                          (12, 8, 0, 256), (12, 8, 0, 65536), (12, 8, 0, 100000), (10, 16, 0, 1048575), (9, 8, 0, 1048576),
                                          (12, 8, 1, 16777216), (3, 8, 0, 4294967295), (3, 8, 0, 4294967296), (5, 8, 0, 5000000000)):
    assert width <= slotbits + gcd(width, slotbits)
    defs = ["PACK_MAX_ELEMENTS %d" % maxel]
    defs.append("PACK_STORAGE_COMPACT" if compact else "PACK_STORAGE_SLOT_STORAGE_TYPE %s" % SLOT[slotbits])
    emit(idx, width, slotbits, compact, defs, "narrow length type: w%d slot%d%s max %d" % (width, slotbits, " compact" if compact else "", maxel),
         lentype="uint8_t" if maxel <= 255 else "uint16_t" if maxel <= 65535 else "uint32_t" if maxel <= 4294967295 else "uint64_t", maxel=maxel)
    idx += 1

# value type wider than the width needs (PACK_STORAGE_VALUE_TYPE is a documented override; the tree itself uses it for its 13-
# and 14-bit arrays): the byte-multiple widths 8 / 16 / 32, where "one value == one VALUE_TYPE object" shortcuts tempt, and others
VT = {16: "uint16_t", 32: "uint32_t", 64: "uint64_t"}
for (width, slotbits, compact, vt) in ((8, 8, 0, 16), (8, 32, 0, 32), (8, 64, 0, 64), (16, 16, 0, 32), (16, 64, 0, 64), (32, 32, 0, 64),
                                       (32, 64, 0, 64), (5, 8, 0, 64), (12, 16, 0, 64), (24, 32, 0, 64), (8, 8, 1, 32), (16, 8, 1, 64)):
    assert width <= slotbits + gcd(width, slotbits)
    defs = ["PACK_STORAGE_VALUE_TYPE %s" % VT[vt]]
    defs.append("PACK_STORAGE_COMPACT" if compact else "PACK_STORAGE_SLOT_STORAGE_TYPE %s" % SLOT[slotbits])
    emit(idx, width, slotbits, compact, defs, "wide value type: w%d slot%d%s value u%d" % (width, slotbits, " compact" if compact else "", vt))
    idx += 1

# Include order matters for a header that is instantiated by re-inclusion: whatever one instantiation leaves defined
# is inherited by the next. Narrow-length-type instances (which set PACK_MAX_ELEMENTS) therefore come FIRST and are then
# interleaved with the default ones, so that every kind of instance is followed by instances relying on the defaults.
narrow = [x for x in SPECS if x["tag"].startswith("narrow")]
rest = [x for x in SPECS if not x["tag"].startswith("narrow")]
ordered = []
ni = 0
for k, x in enumerate(rest):
    if k % 10 == 0 and narrow:
        ordered.append(narrow[ni % len(narrow)] if ni < len(narrow) else None)
        ni += 1
    ordered.append(x)
ordered = [x for x in ordered if x is not None]
for x in narrow[ni:]:
    ordered.append(x)
for k, x in enumerate(ordered):
    emit_real(k, **x)

out.append("typedef struct pinst {")
out.append("    const char *tag; int width, slotbits, compact, intree; uint64_t maxel;")
out.append("    void (*set)(void *, uint64_t, uint64_t); uint64_t (*get)(const void *, uint64_t);")
out.append("    void (*incr)(void *, uint64_t, int64_t); void (*half)(void *, uint64_t);")
out.append("    uint64_t (*bsearch)(const void *, uint64_t, uint64_t); int64_t (*member)(const void *, uint64_t, uint64_t);")
out.append("    void (*insert)(void *, uint64_t, uint64_t, uint64_t); void (*insert_sorted)(void *, uint64_t, uint64_t);")
out.append("    void (*del)(void *, uint64_t, uint64_t); int (*del_member)(void *, uint64_t, uint64_t);")
out.append("} pinst;")
out.append("static const pinst PINST[] = {")
for (i, w, s, c, tag, maxel, intree) in insts:
    out.append('    {"%s", %d, %d, %d, %d, %dull, w%d_set, w%d_get, w%d_incr, w%d_half, w%d_bsearch, w%d_member, w%d_insert, w%d_insert_sorted, w%d_delete, w%d_delete_member},'
               % (tag, w, s, c, 1 if intree else 0, maxel, i, i, i, i, i, i, i, i, i, i))
out.append("};")
out.append("#define NPINST %d" % len(insts))
here = os.path.dirname(os.path.abspath(__file__))
with open(os.path.join(here, "packed_inst.h"), "w") as f:
    f.write("/* GENERATED by checks/gen_packed.py - do not edit */\n" + "\n".join(out) + "\n")
print(len(insts), "instances")
