/* dimension.c - C10: dimension headers round-trip, matrix cells are independent.
 *  headers : Pack/Unpack over a boundary alphabet (all pairs); PairDimension/PairEncode over all 72 width
 *            combinations x {min, min+1, max-1, max}; PAIR/DEPAIR over all (x, y, sparse)
 *  cells   : E-enum over (matrix shape, cell, entry kind, value, background) against a reference buffer built
 *            with independent offset arithmetic; the matrix ends exactly at a PROT_NONE page
 *  history : E-bfs full reachability of small bit / byte matrices under set / clear / toggle / write
 */
#include "vh.h"
#include <fenv.h>
#include <sys/mman.h>

#include "varint.h"
#include "varintDimension.h"

#include "ref_scalar.h"

static char desc[320];

static int bytes_or_zero(uint64_t x) { return x ? ref_bytes_of(x) : 0; }

/* ---------------------------------------------------------------- Pack / Unpack */
static void run_pack(void) {
    if (!vh_section_begin("pack")) {
        return;
    }
    uint64_t V[40];
    int nv = 0;
    V[nv++] = 0;
    V[nv++] = 1;
    for (int k = 1; k <= 8; k++) {
        V[nv++] = (1ULL << (4 * k)) - 1;
        if (k < 16) {
            V[nv++] = 1ULL << (4 * k);
        }
        V[nv++] = (1ULL << (4 * k)) - 2;
    }
    V[nv++] = 1ULL << 36;
    V[nv++] = 1ULL << 40;
    V[nv++] = UINT64_MAX;
    V[nv++] = 7;
    V[nv++] = 0x12345;
    for (int a = 0; a < nv; a++) {
        for (int b = 0; b < nv; b++) {
            if (!vh_case()) {
                continue;
            }
            uint64_t row = V[a], col = V[b];
            uint64_t packed = 0xEEEEEEEEEEEEEEEEULL;
            varintDimensionPacked dim = (varintDimensionPacked)0x77;
            int ok = -1;
            snprintf(desc, sizeof desc, "Pack(%" PRIu64 ", %" PRIu64 ")", row, col);
            if (SB_ENTER()) {
                ok = varintDimensionPack((size_t)row, (size_t)col, &packed, &dim);
                SB_LEAVE();
            } else {
                vh_fail("dimension.Pack", vh_fault_name(), "untagged", "%s %s", desc, vh_fault_msg);
                continue;
            }
            uint64_t mx = row > col ? row : col;
            int want_ok = mx <= 0xffffffffULL;
            vh_count("calls", 1);
            vh_count("cases", 1);
            if (ok != want_ok) {
                vh_fail("dimension.Pack", "wrong_acceptance", "untagged", "%s returned %d, %s", desc, ok, want_ok ? "both coordinates fit 32 bits" : "a coordinate needs more than 32 bits");
                continue;
            }
            if (!ok) {
                vh_class("pack/rejected", "%s", desc);
                continue;
            }
            int d = 1;
            while (mx >= (1ULL << (4 * d))) {
                d++;
            }
            uint64_t want = (d == 16 ? 0 : row << (4 * d)) | col;
            size_t r1 = 0, c1 = 0, r2 = 0, c2 = 0;
            varintDimensionUnpack(&r1, &c1, packed, dim);
            varintDimensionUnpack_(r2, c2, packed, dim);
            vh_count("calls", 2);
            if ((int)dim != d || packed != want || r1 != row || c1 != col || r2 != row || c2 != col) {
                vh_fail("dimension.Pack/Unpack", "roundtrip_mismatch", "untagged", "%s: dimension %d (want %d) packed 0x%" PRIx64 " (want 0x%" PRIx64 ") unpack (%zu,%zu) macro (%zu,%zu)", desc, (int)dim, d, packed, want, r1, c1, r2, c2);
            }
            char ck[32];
            snprintf(ck, sizeof ck, "pack/dim%d", d);
            vh_class(ck, "%s", desc);
        }
    }
}

/* ---------------------------------------------------------------- pair headers */
static void width_samples(int w, uint64_t *out, int *n) {
    *n = 0;
    if (w == 0) {
        out[(*n)++] = 0;
        return;
    }
    uint64_t lo = w == 1 ? 1 : 1ULL << (8 * (w - 1));
    uint64_t hi = w == 8 ? UINT64_MAX : (1ULL << (8 * w)) - 1;
    out[(*n)++] = lo;
    out[(*n)++] = lo + 1;
    out[(*n)++] = hi - 1;
    out[(*n)++] = hi;
}

static void run_headers(void) {
    if (!vh_section_begin("headers")) {
        return;
    }
    /* the pair byte itself */
    for (int x = 0; x <= 8; x++) {
        for (int y = 1; y <= 8; y++) {
            for (int sp = 0; sp < 2; sp++) {
                if (!vh_case()) {
                    continue;
                }
                int dim = VARINT_DIMENSION_PAIR_PAIR(x, y, sp);
                int gx = -1, gy = -1;
                VARINT_DIMENSION_PAIR_DEPAIR(gx, gy, dim);
                int gs = VARINT_DIMENSION_PAIR_IS_SPARSE(dim);
                int bl = VARINT_DIMENSION_PAIR_BYTE_LENGTH(dim);
                vh_count("cases", 1);
                vh_count("calls", 4);
                if (gx != x || gy != y || gs != sp || bl != x + y || dim < 0 || dim > 255) {
                    vh_fail("dimension.PAIR/DEPAIR", "roundtrip_mismatch", "untagged", "PAIR(%d,%d,%d)=0x%x -> rows width %d cols width %d sparse %d byte length %d", x, y, sp, dim, gx, gy, gs, bl);
                }
            }
        }
    }
    for (int wr = 0; wr <= 8; wr++) {
        for (int wc = 1; wc <= 8; wc++) {
            uint64_t R[4], C[4];
            int nr, nc;
            width_samples(wr, R, &nr);
            width_samples(wc, C, &nc);
            for (int a = 0; a < nr; a++) {
                for (int b = 0; b < nc; b++) {
                    if (!vh_case()) {
                        continue;
                    }
                    uint64_t rows = R[a], cols = C[b];
                    int hl = wr + wc;
                    snprintf(desc, sizeof desc, "rows=%" PRIu64 " (width %d) cols=%" PRIu64 " (width %d)", rows, wr, cols, wc);
                    for (int bgi = 0; bgi < 2; bgi++) {
                        uint8_t *buf = vh_gb_get(0, (size_t)hl, bgi ? 0x5a : 0xa5);
                        int dim = -1, dim2 = -1;
                        if (SB_ENTER()) {
                            dim2 = (int)varintDimensionPairDimension((size_t)rows, (size_t)cols);
                            dim = (int)varintDimensionPairEncode(buf, (size_t)rows, (size_t)cols);
                            SB_LEAVE();
                        } else {
                            vh_fail("dimension.PairEncode", vh_fault_kind == 1 ? "write_past_header" : vh_fault_name(), "untagged", "%s: header of %d bytes overrun (off %ld) %s", desc, hl, vh_fault_off, vh_fault_msg);
                            continue;
                        }
                        vh_count("calls", 2);
                        int gr = VARINT_DIMENSION_PAIR_WIDTH_ROW_COUNT(dim), gc = VARINT_DIMENSION_PAIR_WIDTH_COL_COUNT(dim);
                        int bl = VARINT_DIMENSION_PAIR_BYTE_LENGTH(dim);
                        uint8_t ref[16];
                        ref_le(ref, rows, wr);
                        ref_le(ref + wr, cols, wc);
                        if (dim != dim2 || gr != wr || gc != wc || bl != hl || VARINT_DIMENSION_PAIR_IS_SPARSE(dim)) {
                            vh_fail("dimension.PairDimension", "wrong_header_width", "untagged", "%s: dimension 0x%x/0x%x announces rows width %d cols width %d length %d (want %d+%d)", desc, dim, dim2, gr, gc, bl, wr, wc);
                        } else if (memcmp(buf, ref, (size_t)hl) || !vh_gb_canary_ok(0)) {
                            vh_fail("dimension.PairEncode", "wrong_header_bytes", "untagged", "%s: header %s want %s", desc, vh_hex(buf, (size_t)hl), vh_hex(ref, (size_t)hl));
                        }
                    }
                    vh_count("cases", 1);
                    char ck[40];
                    snprintf(ck, sizeof ck, "header/rows%d/cols%d", wr, wc);
                    vh_class(ck, "%s", desc);
                }
            }
        }
    }
}

/* ---------------------------------------------------------------- cells */
enum { K_BIT, K_U1, K_U2, K_U3, K_U4, K_U5, K_U6, K_U7, K_U8, K_FLOAT, K_DOUBLE, K_HALF, K_N };
static const char *KN[K_N] = {"bit", "u8", "u16", "u24", "u32", "u40", "u48", "u56", "u64", "float", "double", "half"};
static int kind_width(int k) { return k == K_BIT ? 0 : k <= K_U8 ? k : k == K_FLOAT ? 4 : k == K_DOUBLE ? 8 : 2; }

/* IEEE 754 binary32 -> binary16, round to nearest even, and back (reference for the half-float cells) */
static uint16_t ref_f32_to_f16(float f) {
    uint32_t x;
    memcpy(&x, &f, 4);
    uint32_t sign = (x >> 16) & 0x8000u, e = (x >> 23) & 0xff, m = x & 0x7fffffu;
    if (e == 0xff) {
        return (uint16_t)(sign | 0x7c00u | (m ? 0x200u | (m >> 13) : 0));
    }
    int32_t ne = (int32_t)e - 127 + 15;
    if (ne >= 0x1f) {
        return (uint16_t)(sign | 0x7c00u);
    }
    if (ne <= 0) {
        if (ne < -10) {
            return (uint16_t)sign;
        }
        m |= 0x800000u;
        uint32_t shift = (uint32_t)(14 - ne);
        uint32_t hm = m >> shift, rem = m & ((1u << shift) - 1), half = 1u << (shift - 1);
        if (rem > half || (rem == half && (hm & 1))) {
            hm++;
        }
        return (uint16_t)(sign | hm);
    }
    uint32_t hm = m >> 13, rem = m & 0x1fffu;
    uint32_t h = (uint32_t)(ne << 10) | hm;
    if (rem > 0x1000u || (rem == 0x1000u && (h & 1))) {
        h++; /* may carry into the exponent, up to infinity: correct */
    }
    return (uint16_t)(sign | h);
}
static float ref_f16_to_f32(uint16_t h) {
    uint32_t sign = (uint32_t)(h & 0x8000u) << 16, e = (h >> 10) & 0x1f, m = h & 0x3ffu, x;
    if (e == 0x1f) {
        x = sign | 0x7f800000u | (m << 13);
    } else if (e == 0) {
        if (m == 0) {
            x = sign;
        } else {
            int sh = 0;
            while (!(m & 0x400u)) {
                m <<= 1;
                sh++;
            }
            x = sign | (uint32_t)(127 - 15 + 1 - sh) << 23 | ((m & 0x3ffu) << 13);
        }
    } else {
        x = sign | (e + 127 - 15) << 23 | (m << 13);
    }
    float f;
    memcpy(&f, &x, 4);
    return f;
}
/* the floating-point cells are written and read under each rounding direction: the stored bytes are a function of the
 * value alone (float and double cells store the value verbatim, half cells round to nearest even) */
static const int C10_ROUND[4] = {FE_TONEAREST, FE_DOWNWARD, FE_UPWARD, FE_TOWARDZERO};
static int g_c10_round = 0;

static size_t pick_cells(uint64_t rows_eff, uint64_t cols, uint64_t (*cells)[2], size_t cap) {
    size_t k = 0;
    if (rows_eff * cols <= 600) {
        for (uint64_t r = 0; r < rows_eff; r++) {
            for (uint64_t c = 0; c < cols; c++) {
                cells[k][0] = r;
                cells[k][1] = c;
                k++;
            }
        }
        return k;
    }
    uint64_t rs[6] = {0, 1, 2, rows_eff / 2, rows_eff - 2, rows_eff - 1};
    uint64_t cs[8] = {0, 1, 7, 8, 9, cols / 2, cols - 2, cols - 1};
    for (int a = 0; a < 6; a++) {
        for (int b = 0; b < 8; b++) {
            if (rs[a] < rows_eff && cs[b] < cols && k < cap) {
                int dup = 0;
                for (size_t j = 0; j < k; j++) {
                    dup |= cells[j][0] == rs[a] && cells[j][1] == cs[b];
                }
                if (!dup) {
                    cells[k][0] = rs[a];
                    cells[k][1] = cs[b];
                    k++;
                }
            }
        }
    }
    return k;
}

static void cell_case(uint64_t rows, uint64_t cols, int kind, uint64_t region_cells_cap) {
    /* rows == 0: vector of `cols` entries (row 0 only) */
    int wr = bytes_or_zero(rows), wc = ref_bytes_of(cols);
    size_t hl = (size_t)(wr + wc);
    uint64_t rows_eff = rows ? rows : 1;
    uint64_t allcells = rows_eff > UINT64_MAX / cols ? UINT64_MAX : rows_eff * cols; /* saturating */
    uint64_t ncells = allcells;
    if (region_cells_cap && ncells > region_cells_cap) {
        ncells = region_cells_cap; /* only the first cells of row 0 are addressable */
    }
    int ew = kind_width(kind);
    size_t databytes = kind == K_BIT ? (size_t)((ncells + 7) / 8) : (size_t)ncells * (size_t)ew;
    size_t total = hl + databytes;
    static uint64_t cells[700][2];
    size_t nc;
    if (region_cells_cap && allcells > region_cells_cap) {
        nc = 0;
        for (uint64_t c = 0; c < ncells; c++) {
            cells[nc][0] = 0;
            cells[nc][1] = c;
            nc++;
        }
    } else {
        nc = pick_cells(rows_eff, cols, cells, 700);
    }
    static uint8_t *refbuf = NULL;
    static size_t refcap = 0;
    if (total > refcap) {
        refbuf = realloc(refbuf, total + 64);
        refcap = total;
    }
    /* value alphabets */
    uint64_t uv[12];
    int nuv = 0;
    if (kind >= K_U1 && kind <= K_U8) {
        uint64_t mask = ew == 8 ? UINT64_MAX : (1ULL << (8 * ew)) - 1;
        uv[nuv++] = 0;
        uv[nuv++] = 1;
        uv[nuv++] = mask;
        uv[nuv++] = mask - 1;
        uv[nuv++] = 0x8040201008040201ULL & mask;
        uv[nuv++] = 0x0102030405060708ULL & mask;
        uv[nuv++] = (mask >> 1) + 1;
    } else if (kind == K_BIT) {
        nuv = 3; /* set true, set false, toggle */
    } else {
        nuv = 11;
    }
    static const double FV[11] = {0.0, -0.0, 1.5, -65504.0, 6.103515625e-05, 1.0 / 0.0, 1.000244140625 /* 1 + 2^-12 */, 65505.0, -1e-8, 0.1, 1.0009765625 + 0.00048828125 /* tie */};
    for (size_t ci = 0; ci < nc; ci++) {
        uint64_t r = cells[ci][0], c = cells[ci][1];
        uint64_t idx = r * cols + c;
        for (int bgi = 0; bgi < 2; bgi++) {
            uint8_t bg = bgi ? 0xff : 0x00;
            for (int vi = 0; vi < nuv; vi++) {
                uint8_t *m = vh_gb_get(0, total, bg);
                int dim = (int)varintDimensionPairEncode(m, (size_t)rows, (size_t)cols);
                memcpy(refbuf, m, total);
                snprintf(desc, sizeof desc, "%" PRIu64 "x%" PRIu64 " %s matrix, cell (%" PRIu64 ",%" PRIu64 "), value #%d, background %02x%s", rows, cols, KN[kind], r, c, vi, bg,
                         kind >= K_FLOAT ? (const char *[]){", rounding to-nearest", ", rounding downward", ", rounding upward", ", rounding toward-zero"}[(ci + (size_t)vi) & 3] : "");
                char api[64];
                int ok = 1;
                uint64_t gotu = 0;
                double gotd = 0;
                int gotb = -1, prevb = -1, wantprev = -1;
                if (SB_ENTER()) {
                    if (kind == K_BIT) {
                        size_t bo = hl + (size_t)(idx / 8);
                        int bb = (int)(idx % 8);
                        wantprev = (refbuf[bo] >> bb) & 1;
                        if (vi == 0) {
                            snprintf(api, sizeof api, "dimension.EntrySetBit");
                            /* the bit argument is a bool: every non-zero argument means "set" */
                            static const int TRUTHY[6] = {1, 2, 4, 0x80, 0x100, -1};
                            varintDimensionPairEntrySetBit(m, (size_t)r, (size_t)c, TRUTHY[(ci + (size_t)bgi) % 6], (varintDimensionPair)dim);
                            refbuf[bo] |= (uint8_t)(1u << bb);
                        } else if (vi == 1) {
                            snprintf(api, sizeof api, "dimension.EntrySetBit");
                            varintDimensionPairEntrySetBit(m, (size_t)r, (size_t)c, false, (varintDimensionPair)dim);
                            refbuf[bo] &= (uint8_t)~(1u << bb);
                        } else {
                            snprintf(api, sizeof api, "dimension.EntryToggleBit");
                            prevb = varintDimensionPairEntryToggleBit(m, (size_t)r, (size_t)c, (varintDimensionPair)dim);
                            refbuf[bo] ^= (uint8_t)(1u << bb);
                        }
                        gotb = varintDimensionPairEntryGetBit(m, (size_t)r, (size_t)c, (varintDimensionPair)dim);
                    } else if (kind <= K_U8) {
                        snprintf(api, sizeof api, "dimension.EntrySetUnsigned");
                        varintDimensionPairEntrySetUnsigned(m, (size_t)r, (size_t)c, uv[vi], (varintWidth)ew, (varintDimensionPair)dim);
                        ref_le(refbuf + hl + (size_t)idx * (size_t)ew, uv[vi], ew);
                        gotu = varintDimensionPairEntryGetUnsigned(m, (size_t)r, (size_t)c, (varintWidth)ew, (varintDimensionPair)dim);
                    } else if (kind == K_FLOAT) {
                        snprintf(api, sizeof api, "dimension.EntrySetFloat");
                        fesetround(C10_ROUND[g_c10_round = (int)((ci + (size_t)vi) & 3)]);
                        float f = (float)FV[vi];
                        varintDimensionPairEntrySetFloat(m, (size_t)r, (size_t)c, f, (varintDimensionPair)dim);
                        memcpy(refbuf + hl + (size_t)idx * 4, &f, 4);
                        float g = varintDimensionPairEntryGetFloat(m, (size_t)r, (size_t)c, (varintDimensionPair)dim);
                        ok = memcmp(&f, &g, 4) == 0;
                        gotd = g;
                    } else if (kind == K_DOUBLE) {
                        snprintf(api, sizeof api, "dimension.EntrySetDouble");
                        fesetround(C10_ROUND[g_c10_round = (int)((ci + (size_t)vi) & 3)]);
                        double d = FV[vi];
                        varintDimensionPairEntrySetDouble(m, (size_t)r, (size_t)c, d, (varintDimensionPair)dim);
                        memcpy(refbuf + hl + (size_t)idx * 8, &d, 8);
                        double g = varintDimensionPairEntryGetDouble(m, (size_t)r, (size_t)c, (varintDimensionPair)dim);
                        ok = memcmp(&d, &g, 8) == 0;
                        gotd = g;
                    } else {
#if defined(__F16C__)
                        snprintf(api, sizeof api, "dimension.EntrySetFloatHalf");
                        float f = (float)FV[vi];
                        uint16_t want16 = ref_f32_to_f16(f);
                        float wantf = ref_f16_to_f32(want16);
                        fesetround(C10_ROUND[g_c10_round = (int)((ci + (size_t)vi) & 3)]);
                        varintDimensionPairEntrySetFloatHalf(m, (size_t)r, (size_t)c, f, (varintDimensionPair)dim);
                        float g = varintDimensionPairEntryGetFloatHalf(m, (size_t)r, (size_t)c, (varintDimensionPair)dim);
                        fesetround(FE_TONEAREST);
                        /* the cell holds the IEEE half nearest to the value (ties to even) whatever the caller's rounding
                         * direction is, and reads back as exactly that half */
                        ok = memcmp(&wantf, &g, 4) == 0;
                        gotd = g;
                        memcpy(refbuf + hl + (size_t)idx * 2, &want16, 2);
#endif
                    }
                    fesetround(FE_TONEAREST);
                    SB_LEAVE();
                } else {
                    fesetround(FE_TONEAREST);
                    vh_fail(api, vh_fault_kind == 1 ? "write_past_matrix" : vh_fault_name(), "untagged", "%s: %s (matrix of %zu bytes, off %ld)", desc, vh_fault_msg, total, vh_fault_off);
                    continue;
                }
                vh_count("calls", 2);
                vh_count("cases", 1);
                if (memcmp(m, refbuf, total) || !vh_gb_canary_ok(0)) {
                    size_t at = 0;
                    while (at < total && m[at] == refbuf[at]) {
                        at++;
                    }
                    vh_fail(api, at < hl ? "header_modified" : "other_cell_modified_or_cell_wrong", "untagged", "%s: byte %zu (header is %zu bytes) is %02x, reference %02x", desc, at, hl, at < total ? m[at] : 0, at < total ? refbuf[at] : 0);
                }
                if (kind == K_BIT) {
                    int wantb = vi == 0 ? 1 : vi == 1 ? 0 : !wantprev;
                    if (gotb != wantb || (vi == 2 && prevb != wantprev)) {
                        vh_fail(api, "wrong_readback", "untagged", "%s: bit reads %d want %d (toggle returned %d, previous %d)", desc, gotb, wantb, prevb, wantprev);
                    }
                } else if (kind <= K_U8) {
                    if (gotu != uv[vi]) {
                        vh_fail(api, "wrong_readback", "untagged", "%s: wrote 0x%" PRIx64 " read 0x%" PRIx64, desc, uv[vi], gotu);
                    }
                } else if (!ok) {
                    vh_fail(api, "wrong_readback", "untagged", "%s: wrote %g read %g", desc, FV[vi], gotd);
                }
            }
        }
    }
    char ck[64];
    snprintf(ck, sizeof ck, "cells/%s/rowsw%d/colsw%d", KN[kind], wr, wc);
    vh_class(ck, "%" PRIu64 "x%" PRIu64, rows, cols);
}

static void run_cells(void) {
    if (!vh_section_begin("cells")) {
        return;
    }
    static const uint64_t ROWS[] = {0, 1, 2, 3, 5, 16, 17, 255, 256, 257};
    static const uint64_t COLS[] = {1, 2, 3, 7, 8, 9, 15, 16, 17, 255, 256, 257, 300};
    int complete = 1;
    for (size_t a = 0; a < sizeof ROWS / sizeof *ROWS && complete; a++) {
        for (size_t b = 0; b < sizeof COLS / sizeof *COLS; b++) {
            for (int kind = 0; kind < K_N; kind++) {
#if !defined(__F16C__)
                if (kind == K_HALF) {
                    continue;
                }
#endif
                if (!vh_case()) {
                    continue;
                }
                if (vh_deadline_now()) {
                    complete = 0;
                    break;
                }
                uint64_t re = ROWS[a] ? ROWS[a] : 1;
                if (re * COLS[b] > (1u << 17)) {
                    continue;
                }
                cell_case(ROWS[a], COLS[b], kind, 0);
            }
        }
    }
    /* wide column counts (widths 2..8): only the first 16 cells of row 0 are addressable in memory */
    for (int wc = 2; wc <= 8; wc++) {
        for (int wr = 0; wr <= 8; wr += 4) {
            for (int kind = 0; kind < K_N; kind++) {
#if !defined(__F16C__)
                if (kind == K_HALF) {
                    continue;
                }
#endif
                if (!vh_case()) {
                    continue;
                }
                uint64_t cols = wc == 8 ? (1ULL << 63) : 1ULL << (8 * (wc - 1));
                uint64_t rows = wr == 0 ? 0 : wr == 4 ? (1ULL << 24) : (1ULL << 56);
                cell_case(rows, cols, kind, 16);
            }
        }
    }
    vh_flag("cells_complete", complete);
}

/* ---------------------------------------------------------------- histories: full reachability */
static void run_histories(void) {
    if (!vh_section_begin("histories")) {
        return;
    }
    /* bit matrices 2x3 and 3x3: states = all bit patterns; ops = set/clear/toggle of every cell */
    static const int SH[2][2] = {{2, 3}, {3, 3}};
    for (int s = 0; s < 2; s++) {
        if (!vh_case()) {
            continue;
        }
        int R = SH[s][0], C = SH[s][1], n = R * C;
        uint8_t seen[512] = {0};
        int queue[512], qh = 0, qt = 0;
        queue[qt++] = 0;
        seen[0] = 1;
        uint64_t ntrans = 0;
        size_t hl = 2, total = hl + (size_t)((n + 7) / 8);
        while (qh < qt) {
            int st = queue[qh++];
            for (int cell = 0; cell < n; cell++) {
                for (int op = 0; op < 3; op++) {
                    uint8_t *m = vh_gb_get(0, total, 0);
                    int dim = (int)varintDimensionPairEncode(m, (size_t)R, (size_t)C);
                    /* materialise state through the library's own setter on a fresh matrix (prefix replay) */
                    m[hl] = (uint8_t)(st & 0xff);
                    if (total > hl + 1) {
                        m[hl + 1] = (uint8_t)(st >> 8);
                    }
                    int r = cell / C, c = cell % C;
                    int before = (st >> cell) & 1, ret = -1;
                    if (op == 0) {
                        varintDimensionPairEntrySetBit(m, (size_t)r, (size_t)c, true, (varintDimensionPair)dim);
                    } else if (op == 1) {
                        varintDimensionPairEntrySetBit(m, (size_t)r, (size_t)c, false, (varintDimensionPair)dim);
                    } else {
                        ret = varintDimensionPairEntryToggleBit(m, (size_t)r, (size_t)c, (varintDimensionPair)dim);
                    }
                    int want = op == 0 ? (st | (1 << cell)) : op == 1 ? (st & ~(1 << cell)) : (st ^ (1 << cell));
                    int got = m[hl] | (total > hl + 1 ? m[hl + 1] << 8 : 0);
                    ntrans++;
                    int readok = 1;
                    for (int q = 0; q < n; q++) {
                        if (varintDimensionPairEntryGetBit(m, (size_t)(q / C), (size_t)(q % C), (varintDimensionPair)dim) != ((want >> q) & 1)) {
                            readok = 0;
                        }
                    }
                    if (got != want || !readok || (op == 2 && ret != before)) {
                        vh_fail(op == 2 ? "dimension.EntryToggleBit" : "dimension.EntrySetBit", "model_divergence", "untagged", "%dx%d bit matrix state 0x%x, %s cell (%d,%d): state 0x%x want 0x%x (toggle returned %d)", R, C, st, op == 0 ? "set" : op == 1 ? "clear" : "toggle", r, c, got, want, ret);
                        continue;
                    }
                    if (!seen[want]) {
                        seen[want] = 1;
                        queue[qt++] = want;
                    }
                }
            }
        }
        vh_count("states", (uint64_t)qt);
        vh_count("transitions", ntrans);
        vh_count("cases", ntrans);
        vh_count("calls", ntrans * (uint64_t)(n + 1));
        char ck[48];
        snprintf(ck, sizeof ck, "history/bits%dx%d", R, C);
        vh_class(ck, "%d states reached (closure), %" PRIu64 " transitions", qt, ntrans);
        if (qt != (1 << n)) {
            vh_fail("dimension.EntrySetBit", "model_divergence", "untagged", "%dx%d bit matrix: only %d of %d states reachable", R, C, qt, 1 << n);
        }
    }
    /* 2x2 matrix of 1-byte cells over {0,1,255}: 81 states */
    if (vh_case()) {
        static const uint8_t AV[3] = {0, 1, 255};
        uint8_t seen[81] = {0};
        int queue[81], qh = 0, qt = 0;
        queue[qt++] = 0;
        seen[0] = 1;
        uint64_t ntrans = 0;
        size_t hl = 2, total = hl + 4;
        while (qh < qt) {
            int st = queue[qh++];
            for (int cell = 0; cell < 4; cell++) {
                for (int v = 0; v < 3; v++) {
                    uint8_t *m = vh_gb_get(0, total, 0);
                    int dim = (int)varintDimensionPairEncode(m, 2, 2);
                    int t = st, digits[4];
                    for (int q = 0; q < 4; q++) {
                        digits[q] = t % 3;
                        t /= 3;
                        m[hl + (size_t)q] = AV[digits[q]];
                    }
                    varintDimensionPairEntrySetUnsigned(m, (size_t)(cell / 2), (size_t)(cell % 2), AV[v], VARINT_WIDTH_8B, (varintDimensionPair)dim);
                    digits[cell] = v;
                    int want = 0, okk = 1;
                    for (int q = 3; q >= 0; q--) {
                        want = want * 3 + digits[q];
                    }
                    for (int q = 0; q < 4; q++) {
                        if (varintDimensionPairEntryGetUnsigned(m, (size_t)(q / 2), (size_t)(q % 2), VARINT_WIDTH_8B, (varintDimensionPair)dim) != AV[digits[q]]) {
                            okk = 0;
                        }
                    }
                    ntrans++;
                    if (!okk) {
                        vh_fail("dimension.EntrySetUnsigned", "model_divergence", "untagged", "2x2 byte matrix state %d, write cell %d := %u", st, cell, AV[v]);
                        continue;
                    }
                    if (!seen[want]) {
                        seen[want] = 1;
                        queue[qt++] = want;
                    }
                }
            }
        }
        vh_count("states", (uint64_t)qt);
        vh_count("transitions", ntrans);
        vh_count("cases", ntrans);
        vh_class("history/bytes2x2", "%d states reached (closure), %" PRIu64 " transitions", qt, ntrans);
    }
}

/* ---------------------------------------------------------------- histories across matrices sharing one buffer
 * A buffer is reused for a second matrix with a different shape (same header width class, so the same dimension
 * byte): every cell of the second matrix must still be independent - nothing may be remembered about the first. */
static void run_matrix_sequences(void) {
    if (!vh_section_begin("sequences")) {
        return;
    }
    static const int SH[][2] = {{2, 3}, {3, 3}, {4, 10}, {4, 12}, {6, 9}, {3, 7}, {7, 3}, {1, 40}, {40, 1}, {5, 5}};
    const int NS = (int)(sizeof SH / sizeof *SH);
    static const int KINDS[3] = {K_BIT, K_U1, K_DOUBLE};
    static uint8_t STORED[16][32];
    static int STORED_DIM[16];
    for (int b = 0; b < NS; b++) {
        memset(STORED[b], 0, sizeof STORED[b]);
        STORED_DIM[b] = (int)varintDimensionPairEncode(STORED[b], (size_t)SH[b][0], (size_t)SH[b][1]);
    }
    for (int a = 0; a < NS; a++) {
        for (int b = 0; b < NS; b++) {
            for (int kii = 0; kii < 6; kii++) {
                if (!vh_case()) {
                    continue;
                }
                if (a == b) {
                    continue;
                }
                /* how the second matrix gets into the buffer: 0 = header encoded in place, 1 = a stored matrix's
                 * header copied in from elsewhere (loading a saved matrix into a reused buffer) */
                int ki = kii % 3, install = kii / 3;
                int kind = KINDS[ki], ew = kind_width(kind);
                uint8_t *m = vh_gb_get_lo(0, 2048, 0x00); /* the same address for both matrices */
                uint8_t ref[2048];
                for (int which = 0; which < 2; which++) {
                    int R = which ? SH[b][0] : SH[a][0], C = which ? SH[b][1] : SH[a][1];
                    size_t hl = 2, cells = (size_t)R * (size_t)C;
                    size_t total = hl + (kind == K_BIT ? (cells + 7) / 8 : cells * (size_t)ew);
                    int dim;
                    if (which && install) {
                        /* the stored header was produced before the first matrix was touched: no library call at all
                         * happens between the accesses to the first matrix and the accesses to the loaded one */
                        memset(m + hl, 0, 2048 - hl);
                        memcpy(m, STORED[b], hl);
                        dim = STORED_DIM[b];
                    } else {
                        memset(m, 0, 2048);
                        dim = (int)varintDimensionPairEncode(m, (size_t)R, (size_t)C);
                    }
                    memcpy(ref, m, 2048);
                    snprintf(desc, sizeof desc, "%dx%d %s matrix %s at the address that held a %dx%d matrix", R, C, KN[kind], which && install ? "loaded (header copied)" : "written", SH[a][0], SH[a][1]);
                    for (int r = 0; r < R; r++) {
                        for (int c = 0; c < C; c++) {
                            size_t idx = (size_t)r * (size_t)C + (size_t)c;
                            int okread = 1;
                            if (SB_ENTER()) {
                                if (kind == K_BIT) {
                                    if ((r + c) & 1) {
                                        int prev = varintDimensionPairEntryToggleBit(m, (size_t)r, (size_t)c, (varintDimensionPair)dim);
                                        okread = prev == 0;
                                    } else {
                                        varintDimensionPairEntrySetBit(m, (size_t)r, (size_t)c, true, (varintDimensionPair)dim);
                                    }
                                    ref[hl + idx / 8] |= (uint8_t)(1u << (idx % 8));
                                    okread &= varintDimensionPairEntryGetBit(m, (size_t)r, (size_t)c, (varintDimensionPair)dim) == 1;
                                } else if (kind == K_U1) {
                                    uint8_t v = (uint8_t)(0x80 | idx);
                                    varintDimensionPairEntrySetUnsigned(m, (size_t)r, (size_t)c, v, VARINT_WIDTH_8B, (varintDimensionPair)dim);
                                    ref[hl + idx] = v;
                                    okread = varintDimensionPairEntryGetUnsigned(m, (size_t)r, (size_t)c, VARINT_WIDTH_8B, (varintDimensionPair)dim) == v;
                                } else {
                                    double d = 1.5 + (double)idx;
                                    varintDimensionPairEntrySetDouble(m, (size_t)r, (size_t)c, d, (varintDimensionPair)dim);
                                    memcpy(ref + hl + idx * 8, &d, 8);
                                    okread = varintDimensionPairEntryGetDouble(m, (size_t)r, (size_t)c, (varintDimensionPair)dim) == d;
                                }
                                SB_LEAVE();
                            } else {
                                vh_fail("dimension.sequence", vh_fault_name(), "untagged", "%s: cell (%d,%d): %s", desc, r, c, vh_fault_msg);
                                continue;
                            }
                            vh_count("calls", 2);
                            if (which && (!okread || memcmp(m, ref, 2048))) {
                                size_t at = 0;
                                while (at < 2048 && m[at] == ref[at]) {
                                    at++;
                                }
                                vh_fail(kind == K_BIT ? "dimension.EntrySetBit" : kind == K_U1 ? "dimension.EntrySetUnsigned" : "dimension.EntrySetDouble", "depends_on_previous_matrix", "untagged",
                                        "%s: after writing cell (%d,%d) byte %zu is %02x, model %02x (read-back ok: %d; matrix is %zu bytes)", desc, r, c, at, at < 2048 ? m[at] : 0, at < 2048 ? ref[at] : 0, okread, total);
                                memcpy(m, ref, 2048);
                            }
                        }
                    }
                }
                vh_count("cases", 1);
            }
        }
    }
    vh_class("sequences/two-matrices-one-buffer", "%d shapes x %d shapes x {bit, u8, double} x {encoded in place, header copied in}", NS, NS);
}

/* ---------------------------------------------------------------- far cells
 * Matrices whose cell index, bit offset or byte offset exceeds 2^31 / 2^32: the storage is a PROT_NONE reservation of
 * 40 GiB; only the header page and the pages of the window around the addressed cell are accessible, so any other
 * access faults; the window must equal the model and the value must read back. */
#define FAR_BYTES (((size_t)40 << 30) + (1 << 16))
static void run_far_cells(void) {
    if (!vh_section_begin("far-cells")) {
        return;
    }
    uint8_t *map = mmap(NULL, FAR_BYTES, PROT_NONE, MAP_PRIVATE | MAP_ANONYMOUS | MAP_NORESERVE, -1, 0);
    if (map == MAP_FAILED) {
        vh_flag("far_cells_mapped", 0);
        return;
    }
    vh_flag("far_cells_mapped", 1);
    mprotect(map, 4096, PROT_READ | PROT_WRITE); /* the header page */
    static const uint64_t SHAPES[4][2] = {{70000, 70000}, {3, (1ULL << 31) + 5}, {(1ULL << 32) + 3, 2}, {65537, 65536}};
    static const int KINDS[6] = {K_BIT, K_U1, K_U2, K_U4, K_U8, K_DOUBLE};
    for (int si = 0; si < 4; si++) {
        uint64_t rows = SHAPES[si][0], cols = SHAPES[si][1];
        __uint128_t all = (__uint128_t)rows * cols;
        /* target linear indices */
        uint64_t targets[16];
        int nt = 0;
        static const int EX[5] = {29, 30, 31, 32, 33};
        for (int e = 0; e < 5; e++) {
            for (int d = -1; d <= 1; d++) {
                targets[nt++] = (1ULL << EX[e]) + (uint64_t)d;
            }
        }
        targets[nt++] = (uint64_t)(all - 1);
        for (int ki = 0; ki < 6; ki++) {
            int kind = KINDS[ki], ew = kind_width(kind);
            for (int ti = 0; ti < nt; ti++) {
                if (!vh_case()) {
                    continue;
                }
                uint64_t idx = targets[ti];
                if ((__uint128_t)idx >= all) {
                    continue;
                }
                uint64_t r = idx / cols, c = idx % cols;
                int wr = ref_bytes_of(rows), wc = ref_bytes_of(cols);
                size_t hl = (size_t)(wr + wc);
                __uint128_t off128 = kind == K_BIT ? (__uint128_t)hl + idx / 8 : (__uint128_t)hl + (__uint128_t)idx * (unsigned)ew;
                if (off128 + 64 >= FAR_BYTES) {
                    continue;
                }
                size_t off = (size_t)off128;
                size_t wlo = off >= 16 ? off - 16 : 0, whi = off + (kind == K_BIT ? 1 : (size_t)ew) + 16, wl = whi - wlo;
                size_t plo = wlo & ~(size_t)4095, phi = (whi + 4095) & ~(size_t)4095;
                if (plo == 0) {
                    plo = 4096;
                }
                if (phi > plo && mprotect(map + plo, phi - plo, PROT_READ | PROT_WRITE) != 0) {
                    vh_flag("far_cells_mapped", 0);
                    continue;
                }
                for (int bgi = 0; bgi < 2; bgi++) {
                    uint8_t model[64];
                    memset(map + wlo, bgi ? 0xff : 0x00, wl);
                    int dim = (int)varintDimensionPairEncode(map, (size_t)rows, (size_t)cols);
                    memcpy(model, map + wlo, wl);
                    snprintf(desc, sizeof desc, "%" PRIu64 "x%" PRIu64 " %s matrix, cell (%" PRIu64 ",%" PRIu64 ") = linear index %" PRIu64 ", background %02x", rows, cols, KN[kind], r, c, idx, bgi ? 0xff : 0);
                    const char *api = kind == K_BIT ? "dimension.EntrySetBit" : kind == K_DOUBLE ? "dimension.EntrySetDouble" : "dimension.EntrySetUnsigned";
                    int ok = 1;
                    if (SB_ENTER()) {
                        if (kind == K_BIT) {
                            varintDimensionPairEntrySetBit(map, (size_t)r, (size_t)c, !bgi, (varintDimensionPair)dim);
                            if (bgi) {
                                model[off - wlo] &= (uint8_t)~(1u << (idx % 8));
                            } else {
                                model[off - wlo] |= (uint8_t)(1u << (idx % 8));
                            }
                            ok = varintDimensionPairEntryGetBit(map, (size_t)r, (size_t)c, (varintDimensionPair)dim) == !bgi;
                        } else if (kind == K_DOUBLE) {
                            double d = 1234.5 + (double)ti;
                            varintDimensionPairEntrySetDouble(map, (size_t)r, (size_t)c, d, (varintDimensionPair)dim);
                            memcpy(model + (off - wlo), &d, 8);
                            ok = varintDimensionPairEntryGetDouble(map, (size_t)r, (size_t)c, (varintDimensionPair)dim) == d;
                        } else {
                            uint64_t mask = ew == 8 ? UINT64_MAX : (1ULL << (8 * ew)) - 1, v = 0x8142241812244281ULL & mask;
                            varintDimensionPairEntrySetUnsigned(map, (size_t)r, (size_t)c, v, (varintWidth)ew, (varintDimensionPair)dim);
                            ref_le(model + (off - wlo), v, ew);
                            ok = varintDimensionPairEntryGetUnsigned(map, (size_t)r, (size_t)c, (varintWidth)ew, (varintDimensionPair)dim) == v;
                        }
                        SB_LEAVE();
                    } else {
                        uint8_t *fa = (uint8_t *)vh_fault_addr;
                        if (fa >= map && fa < map + FAR_BYTES) {
                            vh_fail(api, "other_cell_modified_or_cell_wrong", "untagged", "%s: cell lies at matrix byte %zu but matrix byte %zu was accessed", desc, off, (size_t)(fa - map));
                        } else {
                            vh_fail(api, vh_fault_name(), "untagged", "%s: %s", desc, vh_fault_msg);
                        }
                    }
                    vh_count("calls", 2);
                    vh_count("cases", 1);
                    if (!ok) {
                        vh_fail(api, "wrong_readback", "untagged", "%s", desc);
                    }
                    if (memcmp(map + wlo, model, wl)) {
                        vh_fail(api, "other_cell_modified_or_cell_wrong", "untagged", "%s: the bytes at the cell's position (matrix byte %zu) differ from the model", desc, off);
                    }
                }
                if (phi > plo) {
                    madvise(map + plo, phi - plo, MADV_DONTNEED);
                    mprotect(map + plo, phi - plo, PROT_NONE);
                }
                vh_count("windows", 1);
                char ck[64];
                snprintf(ck, sizeof ck, "far-cells/%s/index>=2^%d", KN[kind], 63 - __builtin_clzll(idx | 1));
                vh_class(ck, "%" PRIu64 "x%" PRIu64 " cell (%" PRIu64 ",%" PRIu64 ")", rows, cols, r, c);
            }
        }
    }
    munmap(map, FAR_BYTES);
}

int main(int argc, char **argv) {
    vh_init(argc, argv);
    vh_sandbox_init();
    vh_watchdog(60); /* a library call that makes no progress for a whole period is reported as a hang */
    vh_gb_init(0, (1u << 20) + 4096);
    run_pack();
    run_headers();
    run_cells();
    run_histories();
    run_matrix_sequences();
    run_far_cells();
    vh_write_out();
    return 0;
}
