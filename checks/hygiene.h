/* hygiene.h - support code for the generated macro-hygiene checks (see gen_hygiene.py) */
#ifndef VERIF_HYGIENE_H
#define VERIF_HYGIENE_H

typedef struct {
    uint8_t b[40];
    uint64_t l[2];
} hyg_state;
#define HYG_REVPOS 24

typedef struct {
    int64_t v;
    int w;
} hyg_signed;
/* (value, width) pairs for the external signed helpers: width in BYTES (3, 5, 6, 7), value already representable */
static const hyg_signed SIGNED_EXT[] = {{5, 3}, {-5, 3}, {-8388607, 3}, {8388607, 3}, {-1, 5}, {-549755813887LL, 5}, {123456789012LL, 6}, {-123456789012LL, 6}, {-36028797018963967LL, 7}, {7, 7}};
/* (value, width) pairs for the bitstream signed helpers: width in BITS */
static const hyg_signed SIGNED_BITS[] = {{1, 2}, {-1, 2}, {-5, 12}, {5, 12}, {-2047, 12}, {2047, 12}, {-3, 16}, {-32767, 16}, {-1000000, 33}, {1000000, 33}, {-4611686018427387903LL, 63}};

static int extw(uint64_t v) {
    int w = 1;
    while (w < 8 && (v >> (8 * w))) {
        w++;
    }
    return w;
}
static void hyg_base(hyg_state *s) {
    memset(s->b, 0xA5, sizeof s->b);
    s->l[0] = s->l[1] = 0;
}
static void hyg_setup_put(hyg_state *s, uint64_t v, int w) { (void)v; (void)w; hyg_base(s); }
static void hyg_setup_none(hyg_state *s, uint64_t v, int w) { (void)v; (void)w; hyg_base(s); }
static void hyg_setup_get(hyg_state *s, uint64_t v, int w) { (void)v; (void)w; hyg_base(s); }
static void hyg_setup_getrev(hyg_state *s, uint64_t v, int w) { (void)v; (void)w; hyg_base(s); }
static void hyg_setup_putrev(hyg_state *s, uint64_t v, int w) { (void)v; (void)w; hyg_base(s); }
static void hyg_setup_putrevlast(hyg_state *s, uint64_t v, int w) { (void)v; (void)w; hyg_base(s); }
static void hyg_setup_signed(hyg_state *s, uint64_t v, int w) { (void)v; (void)w; hyg_base(s); }
static void hyg_setup_signedback(hyg_state *s, uint64_t v, int w) { (void)v; (void)w; hyg_base(s); }
static void hyg_setup_signedbits(hyg_state *s, uint64_t v, int w) { (void)v; (void)w; hyg_base(s); }
static void hyg_setup_signedbitsback(hyg_state *s, uint64_t v, int w) { (void)v; (void)w; hyg_base(s); }

#ifdef HYG_SCALAR
static void hyg_fill_tagged(hyg_state *s, uint64_t v) { varintTaggedPut64(s->b + 8, v); }
static void hyg_fill_ext(hyg_state *s, uint64_t v) { varintExternalPutFixedWidth(s->b + 8, v, (varintWidth)extw(v)); }
static void hyg_fill_extbe(hyg_state *s, uint64_t v) { varintExternalBigEndianPutFixedWidth(s->b + 8, v, (varintWidth)extw(v)); }
#define HYG_FILL(F)                                                                                                \
    static void hyg_fill_##F(hyg_state *s, uint64_t v) {                                                           \
        int zlen_ = 0;                                                                                             \
        varint##F##Put_(s->b + 8, zlen_, v);                                                                       \
        (void)zlen_;                                                                                               \
    }
HYG_FILL(Split)
HYG_FILL(SplitFull)
HYG_FILL(SplitFullNoZero)
HYG_FILL(SplitFull16)
#define HYG_FILLREV(F)                                                                                             \
    static void hyg_fillrev_##F(hyg_state *s, uint64_t v) {                                                        \
        int zlen_ = 0;                                                                                             \
        varint##F##ReversedPutReversed_(s->b + HYG_REVPOS, zlen_, v);                                              \
        (void)zlen_;                                                                                               \
    }
HYG_FILLREV(Split)
HYG_FILLREV(SplitFull)
HYG_FILLREV(SplitFullNoZero)
#endif

static void hyg_compare(const char *macro, const char *variant, const hyg_state *ref, const hyg_state *got, uint64_t v) {
    if (memcmp(ref->b, got->b, sizeof ref->b) || ref->l[0] != got->l[0] || ref->l[1] != got->l[1]) {
        char api[96];
        snprintf(api, sizeof api, "macro.%s", macro);
        vh_fail(api, "depends_on_how_the_operand_is_written", "untagged", "%s with %s (value %" PRIu64 "): outputs %" PRIu64 "/%" PRIu64 " bytes %s; with plainly named plain operands: %" PRIu64 "/%" PRIu64 " bytes %s", macro, variant, v,
                got->l[0], got->l[1], vh_hex(got->b, 32), ref->l[0], ref->l[1], vh_hex(ref->b, 32));
    }
}
#endif
