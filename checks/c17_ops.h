#ifndef C17_OPS_H
#define C17_OPS_H
#include <stddef.h>
#include <stdint.h>

#define C17_OBS_MAX 16384
typedef struct c17_ctx {
    const uint64_t *in; /* shared read-only input */
    size_t n;
    int arg;
    uint8_t *enc;  /* private scratch, 16 KiB (large operations: C17_LARGE_BYTES) */
    uint8_t *enc2; /* private scratch, 16 KiB (large operations: C17_LARGE_BYTES) */
    uint64_t *dec; /* private scratch, 256 elements (large operations: C17_LARGE_BYTES / 8) */
    uint8_t *obs;  /* private observation buffer, C17_OBS_MAX bytes */
    uint32_t obs_len;
} c17_ctx;

typedef void (*c17_fn)(c17_ctx *);
typedef struct c17_op {
    const char *name;
    c17_fn fn;
    int arg;
    int input; /* which shared input */
} c17_op;

/* C17_OPS[0 .. C17_NOPS) are the small operations (inputs 0-2, at most 130 values); C17_OPS[C17_NOPS .. C17_NALL) are
 * the large ones (inputs 3-5, C17_LARGE_N values each: above the 4096 / 8192 / 10000 size thresholds of the library) */
extern const c17_op C17_OPS[];
extern const int C17_NOPS, C17_NALL;
/* C17_OPS[C17_NALL .. C17_NALL + C17_NREC) are the record operations: each updates ONE slot of the shared record
 * C17_REC in place (slots are adjacent byte ranges of one 8-byte aligned record, one owner thread per slot) */
extern const int C17_NREC;
extern uint8_t C17_REC[64];
void c17_reset_record(void);
int c17_record_slot(int op); /* slot id of a record operation, -1 otherwise */
/* C17_OPS[C17_NALL + C17_NREC .. + C17_NSHD) are the shared-dictionary operations: every thread queries and encodes with
 * ONE dictionary object built before the threads start (a `const varintDict *` argument: a shared read-only input) */
extern const int C17_NSHD;
#define C17_NSHREG 4
extern const void *C17_SHREG[C17_NSHREG]; /* the shared dictionary object, its value array, the two query arrays */
extern size_t C17_SHREG_BYTES[C17_NSHREG];
#define C17_NIN 9
#define C17_LARGE_N 12000
#define C17_MEDIUM_N 2000
#define C17_LARGE_BYTES (256 * 1024)
extern const uint64_t *C17_IN[C17_NIN];
extern const size_t C17_INN[C17_NIN];
extern const size_t C17_INBYTES[C17_NIN];
void c17_init_inputs(void);
#endif
