#ifndef C17_OPS_H
#define C17_OPS_H
#include <stddef.h>
#include <stdint.h>

#define C17_OBS_MAX 16384
typedef struct c17_ctx {
    const uint64_t *in; /* shared read-only input */
    size_t n;
    int arg;
    uint8_t *enc;  /* private scratch, 16 KiB */
    uint8_t *enc2; /* private scratch, 16 KiB */
    uint64_t *dec; /* private scratch, 256 elements */
    uint8_t *obs;  /* private observation buffer, C17_OBS_MAX bytes */
    uint32_t obs_len;
} c17_ctx;

typedef void (*c17_fn)(c17_ctx *);
typedef struct c17_op {
    const char *name;
    c17_fn fn;
    int arg;
    int input; /* which shared input */
} c17_op;

extern const c17_op C17_OPS[];
extern const int C17_NOPS;
extern const uint64_t C17_IN[3][160];
extern const size_t C17_INN[3];
#endif
