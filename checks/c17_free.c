/* c17_free.c - free-running cross-check of C17 with the real ThreadSanitizer (libtsan):
 * 16 threads started behind a barrier run every operation (different rotations) for several rounds in a forked
 * child; any report makes the child exit with code 66. Not the deciding step (covers what our own runtime cannot
 * see: uninstrumented libc internals). */
#include "vh.h"

#include <pthread.h>
#include <sys/wait.h>

#include "c17_ops.h"

static pthread_barrier_t bar;
static int ROUNDS;
static void *worker(void *arg) {
    int t = (int)(intptr_t)arg;
    c17_ctx c;
    memset(&c, 0, sizeof c);
    c.enc = malloc(C17_LARGE_BYTES);
    c.enc2 = malloc(C17_LARGE_BYTES);
    c.dec = malloc(C17_LARGE_BYTES);
    c.obs = malloc(C17_OBS_MAX);
    pthread_barrier_wait(&bar);
    for (int r = 0; r < ROUNDS; r++) {
        /* every small operation each round; the large ones (12000-value inputs) every 10th round */
        int nops = r % 10 == 0 ? C17_NALL : C17_NOPS;
        for (int k = 0; k < nops; k++) {
            int oi = (t * 5 + k + r) % nops;
            c.in = C17_IN[C17_OPS[oi].input];
            c.n = C17_INN[C17_OPS[oi].input];
            c.arg = C17_OPS[oi].arg;
            c.obs_len = 0;
            C17_OPS[oi].fn(&c);
        }
        /* every thread queries the one shared dictionary object */
        c.arg = C17_OPS[C17_NALL + C17_NREC + t % C17_NSHD].arg;
        c.obs_len = 0;
        C17_OPS[C17_NALL + C17_NREC + t % C17_NSHD].fn(&c);
        /* threads 0..5 each own one slot of the shared record */
        if (t < C17_NREC) {
            c.arg = C17_OPS[C17_NALL + t].arg;
            c.obs_len = 0;
            C17_OPS[C17_NALL + t].fn(&c);
        }
    }
    free(c.enc);
    free(c.enc2);
    free(c.dec);
    free(c.obs);
    return NULL;
}

int main(int argc, char **argv) {
    vh_init(argc, argv);
    c17_init_inputs();
    c17_reset_record();
    ROUNDS = vh_thorough ? 200 : 50;
    if (vh_section_begin("free-running") && vh_case()) {
        pid_t pid = fork();
        if (pid == 0) {
            pthread_t th[16];
            pthread_barrier_init(&bar, NULL, 16);
            for (int t = 0; t < 16; t++) {
                pthread_create(&th[t], NULL, worker, (void *)(intptr_t)t);
            }
            for (int t = 0; t < 16; t++) {
                pthread_join(th[t], NULL);
            }
            _exit(0);
        }
        int st = 0;
        waitpid(pid, &st, 0);
        if (WIFEXITED(st) && WEXITSTATUS(st) == 66) {
            vh_fail("concurrent calls", "data_race", "untagged", "free-running pass: ThreadSanitizer reported a data race (16 threads x %d operations x %d rounds)", C17_NOPS, ROUNDS);
        } else if (!WIFEXITED(st) || WEXITSTATUS(st) != 0) {
            vh_fail("concurrent calls", "crash", "untagged", "free-running pass ended abnormally (status %d)", st);
        }
        vh_count("cases", 1);
        vh_count("calls", (uint64_t)16 * (uint64_t)C17_NOPS * (uint64_t)ROUNDS);
        vh_class("free-running/tsan", "16 threads x %d operations x %d rounds", C17_NOPS, ROUNDS);
    }
    vh_write_out();
    return 0;
}
