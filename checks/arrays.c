/* arrays.c - E-enum harness over the array corpus for the integer-array codecs.
 *   --prop C02  lossless round trip from exact-size copies, random access agrees with full decode
 *   --prop C03  encoders stay inside the advertised size (guard page exactly at the bound)
 *   --prop C13  decoders honour every capacity 0..n
 *   --prop C16  metadata outputs and header accessors equal ground truth
 *   --prop C06  adaptive: auto + forced encodings lossless, header byte = reported type
 */
#include "vh.h"
#include <sys/mman.h>
#include "vmalloc.h"

#include "varint.h"
#include "varintAdaptive.h"
#include "varintBP128.h"
#include "varintBitmap.h"
#include "varintDelta.h"
#include "varintDict.h"
#include "varintElias.h"
#include "varintFOR.h"
#include "varintFloat.h"
#include "varintGroup.h"
#include "varintPFOR.h"
#include "varintRLE.h"
#include "varintTagged.h"

#include "corpus.h"
#include "ref_scalar.h"

static int u64cmp_corpus(const void *a, const void *b);
static int u32cmp_corpus(const void *a, const void *b);
static const char *PROP = "C02";
static int M02, M03, M13, M16, M06;

/* guard slots */
enum { G_DST = 0, G_ENC = 1, G_OUT = 2, G_IN = 3, G_AUX = 4 };
#define SLACK 4096

static const char *cur_desc = "";
static const char *cur_api = "";
static const char *cur_trigger = "untagged";

#define AFAIL(api, kind, ...) vh_fail((api), (kind), cur_trigger, __VA_ARGS__)

/* translate a sandbox fault into a failure kind */
static void report_fault(const char *api, const char *what) {
    const char *kind = vh_fault_name();
    if (vh_fault_kind == 1) {
        switch (vh_fault_slot) {
        case G_DST:
            kind = "write_past_bound";
            break;
        case G_ENC:
            kind = "read_past_input";
            break;
        case G_OUT:
            kind = "write_past_capacity";
            break;
        case G_IN:
            kind = "read_past_values";
            break;
        default:
            kind = "guard_overrun";
        }
    }
    AFAIL(api, kind, "%s: %s [%s] fault_off=%ld %s", what, cur_desc, vh_fault_name(), vh_fault_off, vh_fault_msg);
}

/* run a library call inside sandbox + vmalloc case; returns 1 if it completed */
static vm_report last_vm;
#define LIBCALL(api, what, stmt)                                                                                   \
    ({                                                                                                             \
        int ok_ = 0;                                                                                               \
        cur_api = (api);                                                                                           \
        vm_begin_case(NULL);                                                                                       \
        if (SB_ENTER()) {                                                                                          \
            stmt;                                                                                                  \
            SB_LEAVE();                                                                                            \
            ok_ = 1;                                                                                               \
        }                                                                                                          \
        vm_end_case(&last_vm);                                                                                     \
        if (!ok_) {                                                                                                \
            report_fault((api), (what));                                                                           \
        } else if (last_vm.overflows || last_vm.underflows || last_vm.bad_frees || last_vm.double_frees) {         \
            AFAIL((api), "internal_heap_overflow", "%s: %s: library overflowed its own %zu-byte block (over=%zu under=%zu badfree=%zu)", \
                  (what), cur_desc, last_vm.first_bad_size, last_vm.overflows, last_vm.underflows, last_vm.bad_frees); \
        }                                                                                                          \
        vh_count("calls", 1);                                                                                      \
        ok_;                                                                                                       \
    })

/* the same with the k-th allocation of the call failing */
static size_t g_fail_k = 0;
#define LIBCALL_FAILK(api, what, k, stmt)                                                                          \
    ({                                                                                                             \
        int ok_ = 0;                                                                                               \
        vm_policy pol_;                                                                                            \
        memset(&pol_, 0, sizeof pol_);                                                                             \
        pol_.fill = 0xA7;                                                                                          \
        pol_.fail_k1 = (k);                                                                                        \
        g_fail_k = (k);                                                                                            \
        cur_api = (api);                                                                                           \
        vm_begin_case(&pol_);                                                                                      \
        if (SB_ENTER()) {                                                                                          \
            stmt;                                                                                                  \
            SB_LEAVE();                                                                                            \
            ok_ = 1;                                                                                               \
        }                                                                                                          \
        vm_end_case(&last_vm);                                                                                     \
        if (!ok_) {                                                                                                \
            report_fault((api), (what));                                                                           \
        }                                                                                                          \
        g_fail_k = 0;                                                                                              \
        vh_count("calls", 1);                                                                                      \
        ok_;                                                                                                       \
    })

/* input placement: pass 0 puts every typed input flush against the guard page (an over-read faults), which ties the
 * start address's alignment to the length; the further passes move the start back by g_in_shift elements so that
 * every length also meets the other alignment classes (mod 8 for 32-bit, mod 16/32 for 64-bit elements) */
static size_t g_in_shift = 0;
static uint8_t *in_get(size_t nbytes, size_t elem) {
    return vh_gb_get(G_IN, nbytes + g_in_shift * elem, -1);
}
static uint64_t *in_vals(const uint64_t *v, size_t n) {
    uint64_t *p = (uint64_t *)in_get(n * 8, 8);
    memcpy(p, v, n * 8);
    return p;
}
static uint8_t *exact_copy(const uint8_t *enc, size_t len) {
    uint8_t *p = vh_gb_get(G_ENC, len, -1);
    memcpy(p, enc, len);
    return p;
}
/* destination for an encoder: exactly `bound` bytes in C03 mode, bound + slack otherwise */
static uint8_t *enc_dst(size_t bound, size_t fallback) {
    size_t sz = M03 ? bound : (bound > fallback ? bound : fallback) + SLACK;
    return vh_gb_get(G_DST, sz, 0xEE);
}
static uint64_t *out_buf(size_t nelem) { return (uint64_t *)vh_gb_get(G_OUT, nelem * 8, 0xAB); }

static int cmp_u64(const uint64_t *a, const uint64_t *b, size_t n, size_t *at) {
    for (size_t i = 0; i < n; i++) {
        if (a[i] != b[i]) {
            *at = i;
            return 1;
        }
    }
    return 0;
}

static void check_bound(const char *api, size_t written, size_t bound, int exact) {
    if (!M03) {
        return;
    }
    if (written > bound) {
        AFAIL(api, "size_underestimate", "%s: wrote %zu bytes, advertised %zu", cur_desc, written, bound);
    } else if (exact && written != bound) {
        AFAIL(api, "size_not_exact", "%s: wrote %zu bytes, predictor said %zu", cur_desc, written, bound);
    }
}

/* indices used for random access: all when n small, boundary + stride sample otherwise */
static size_t pick_indices(size_t n, size_t *idx, size_t cap) {
    size_t k = 0;
    if (n <= 400) {
        for (size_t i = 0; i < n && k < cap; i++) {
            idx[k++] = i;
        }
        return k;
    }
    static const size_t pts[] = {0, 1, 2, 126, 127, 128, 129, 239, 240, 241, 255, 256, 257, 4095, 4096, 4097};
    for (size_t i = 0; i < sizeof pts / sizeof *pts; i++) {
        if (pts[i] < n) {
            idx[k++] = pts[i];
        }
    }
    for (size_t i = 0; i < 24; i++) {
        idx[k++] = (n - 1) - (i * (n / 29)) % n;
    }
    idx[k++] = n - 1;
    idx[k++] = n / 2;
    return k;
}

/* capacity sweep helper: list of capacities */
/* capacities larger than the data are meaningful only where the encoding itself carries its element count (the
 * argument is then a capacity: the caller's buffer size); where the argument IS the count (delta, 128-block packing,
 * headerless run-length, the adaptive TAGGED/DELTA forms) a larger value is not a legal call */
static int g_caps_big = 0;
static size_t pick_caps(size_t n, size_t *caps) {
    size_t k = 0;
    static const size_t BIG[] = {255, 256, 257, 300, 512, 65535, 65536, 65537, (size_t)1 << 31, ((size_t)1 << 32) - 1, (size_t)1 << 32, ((size_t)1 << 32) + 1, (size_t)1 << 40};
    for (size_t i = 0; g_caps_big && i < sizeof BIG / sizeof *BIG; i++) {
        if (BIG[i] > n) {
            caps[k++] = BIG[i];
        }
    }
    if (g_caps_big) {
        caps[k++] = n + 1;
    }
    if (n <= 400) {
        for (size_t c = 0; c <= n; c++) {
            caps[k++] = c;
        }
        return k;
    }
    size_t pts[] = {0, 1, 127, 128, 129, n - 129, n - 128, n - 127, n - 1, n, n / 2};
    for (size_t i = 0; i < sizeof pts / sizeof *pts; i++) {
        if (pts[i] <= n) {
            caps[k++] = pts[i];
        }
    }
    /* a capacity that cuts EVERY 128-value block at several residues (the block codecs decode whole blocks) */
    static const size_t RES[6] = {1, 31, 63, 64, 65, 127};
    for (size_t b = 1; b * 128 < n && k + 6 < 480; b++) {
        for (int ri = 0; ri < 6; ri++) {
            if (b * 128 + RES[ri] < n) {
                caps[k++] = b * 128 + RES[ri];
            }
        }
    }
    return k;
}

/* generic capacity oracle: result r must be <= c, out[0..r) a correct prefix. The output buffer holds
 * exactly c elements before the guard page, so any write at or beyond element c faults. */
#define CAP_SWEEP(api, n, expect, DECODE_EXPR)                                                                      \
    do {                                                                                                           \
        size_t caps_[512];                                                                                         \
        size_t nc_ = pick_caps((n), caps_);                                                                        \
        for (size_t ci_ = 0; ci_ < nc_; ci_++) {                                                                   \
            size_t c = caps_[ci_];                                                                                 \
            /* capacities above n (2^8, 2^16, 2^32 neighbourhoods, SIZE_MAX): the buffer holds the n elements */   \
            size_t room_ = c > (size_t)(n) ? (size_t)(n) : c;                                                      \
            uint64_t *out = out_buf(room_);                                                                        \
            size_t r = 0;                                                                                          \
            char what_[64];                                                                                        \
            snprintf(what_, sizeof what_, "capacity=%zu of n=%zu", c, (size_t)(n));                                \
            if (!LIBCALL(api, what_, r = (DECODE_EXPR))) {                                                         \
                continue;                                                                                          \
            }                                                                                                      \
            size_t allocs_ = last_vm.allocs;                                                                       \
            /* second placement for the capacities n, n-1 and n/2: the output starts 8 bytes off (its 16-byte           \
             * alignment flips) and is followed by three sentinel elements instead of the guard page */              \
            if (room_ == c && (c == (size_t)(n) || c + 1 == (size_t)(n) || c == (size_t)(n) / 2)) {                 \
                uint64_t *wide_ = out_buf(c + 4);                                                                  \
                out = wide_ + 1;                                                                                   \
                size_t r2_ = 0;                                                                                    \
                snprintf(what_, sizeof what_, "capacity=%zu of n=%zu, output 8 bytes off its flush position", c, (size_t)(n)); \
                if (LIBCALL(api, what_, r2_ = (DECODE_EXPR))) {                                                    \
                    size_t at2_ = 0;                                                                               \
                    if (wide_[0] != 0xABABABABABABABABULL || out[c] != 0xABABABABABABABABULL || out[c + 1] != 0xABABABABABABABABULL || out[c + 2] != 0xABABABABABABABABULL) { \
                        AFAIL(api, "write_past_capacity", "%s: %s: an element next to the %zu-element output was overwritten (before %d, after %d %d)", cur_desc, what_, c, wide_[0] != 0xABABABABABABABABULL, \
                              out[c] != 0xABABABABABABABABULL, out[c + 1] != 0xABABABABABABABABULL);                \
                    } else if (r2_ != r || cmp_u64(out, (expect), r2_ > c ? c : r2_, &at2_)) {                      \
                        AFAIL(api, "wrong_prefix", "%s: %s returned %zu (flush placement returned %zu)", cur_desc, what_, r2_, r); \
                    }                                                                                              \
                }                                                                                                  \
                out = out_buf(room_);                                                                              \
                snprintf(what_, sizeof what_, "capacity=%zu of n=%zu", c, (size_t)(n));                            \
                if (!LIBCALL(api, what_, r = (DECODE_EXPR))) {                                                     \
                    continue;                                                                                      \
                }                                                                                                  \
            }                                                                                                      \
            for (size_t k_ = 0; k_ <= allocs_ && k_ <= 6; k_++) {                                                  \
                if (k_) {                                                                                          \
                    /* the same decode with its k-th allocation failing: the capacity still holds */               \
                    out = out_buf(room_);                                                                          \
                    r = 0;                                                                                         \
                    snprintf(what_, sizeof what_, "capacity=%zu of n=%zu, allocation #%zu failing", c, (size_t)(n), k_); \
                    if (!LIBCALL_FAILK(api, what_, k_, r = (DECODE_EXPR))) {                                       \
                        continue;                                                                                  \
                    }                                                                                              \
                    vh_count("cap_fault_cases", 1);                                                                \
                }                                                                                                  \
                size_t at_ = 0;                                                                                    \
                if (r > room_) {                                                                                   \
                    AFAIL(api, "returns_more_than_capacity", "%s: %s returned %zu", cur_desc, what_, r);           \
                } else if (cmp_u64(out, (expect), r, &at_)) {                                                      \
                    AFAIL(api, "wrong_prefix", "%s: %s returned %zu, element %zu = %" PRIu64 " want %" PRIu64, cur_desc, what_, r, at_, out[at_], (expect)[at_]); \
                } else if (!k_ && c >= (size_t)(n) && r != (size_t)(n)) {                                          \
                    AFAIL(api, "roundtrip_mismatch", "%s: %s returned %zu", cur_desc, what_, r);                   \
                }                                                                                                  \
                if (!vh_gb_canary_ok(G_OUT)) {                                                                     \
                    AFAIL(api, "stray_write", "%s: %s: bytes before the output changed", cur_desc, what_);         \
                }                                                                                                  \
            }                                                                                                      \
            vh_count("cap_cases", 1);                                                                              \
        }                                                                                                          \
    } while (0)

/* ------------------------------------------------------------------ delta */
static void codec_delta(const uint64_t *vals, size_t n) {
    /* unsigned */
    uint64_t *in = in_vals(vals, n);
    size_t bound = varintDeltaMaxEncodedSize(n);
    uint8_t *dst = enc_dst(bound, 10 * n + 16);
    size_t wrote = 0;
    if (!LIBCALL("delta.EncodeUnsigned", "encode", wrote = varintDeltaEncodeUnsigned(dst, in, n))) {
        return;
    }
    check_bound("delta.EncodeUnsigned", wrote, bound, 0);
    if (M02) {
        uint8_t *enc = exact_copy(dst, wrote);
        uint64_t *out = out_buf(n);
        size_t rd = 0, at = 0;
        if (LIBCALL("delta.DecodeUnsigned", "decode exact-size input", rd = varintDeltaDecodeUnsigned(enc, n, out))) {
            if (cmp_u64(out, vals, n, &at)) {
                AFAIL("delta.DecodeUnsigned", "roundtrip_mismatch", "%s: element %zu = %" PRIu64 " want %" PRIu64, cur_desc, at, out[at], vals[at]);
            }
            if (rd != wrote) {
                AFAIL("delta.DecodeUnsigned", "length_disagreement", "%s: encoder wrote %zu, decoder consumed %zu", cur_desc, wrote, rd);
            }
        }
    }
    char ck[64];
    snprintf(ck, sizeof ck, "delta/u/basew%d/avg%zu", dst[0], n > 1 ? (wrote - 1 - dst[0]) / (n - 1) : 0);
    vh_class(ck, "%s", cur_desc);
    /* signed: reinterpret; domain = every consecutive difference representable */
    int ok = 1;
    for (size_t i = 1; i < n && ok; i++) {
        long long d;
        if (__builtin_ssubll_overflow((long long)(int64_t)vals[i], (long long)(int64_t)vals[i - 1], &d)) {
            ok = 0;
        }
    }
    if (!ok) {
        return;
    }
    dst = enc_dst(bound, 10 * n + 16);
    if (!LIBCALL("delta.Encode", "encode", wrote = varintDeltaEncode(dst, (const int64_t *)in, n))) {
        return;
    }
    check_bound("delta.Encode", wrote, bound, 0);
    if (M02) {
        uint8_t *enc = exact_copy(dst, wrote);
        uint64_t *out = out_buf(n);
        size_t rd = 0, at = 0;
        if (LIBCALL("delta.Decode", "decode exact-size input", rd = varintDeltaDecode(enc, n, (int64_t *)out))) {
            if (cmp_u64(out, vals, n, &at)) {
                AFAIL("delta.Decode", "roundtrip_mismatch", "%s: element %zu = %" PRId64 " want %" PRId64, cur_desc, at, (int64_t)out[at], (int64_t)vals[at]);
            }
            if (rd != wrote) {
                AFAIL("delta.Decode", "length_disagreement", "%s: encoder wrote %zu, decoder consumed %zu", cur_desc, wrote, rd);
            }
        }
    }
    snprintf(ck, sizeof ck, "delta/s/basew%d", dst[0]);
    vh_class(ck, "%s", cur_desc);
}

/* ------------------------------------------------------------------ FOR */
static void for_truth(const uint64_t *v, size_t n, uint64_t *mn, uint64_t *mx) {
    *mn = *mx = v[0];
    for (size_t i = 1; i < n; i++) {
        if (v[i] < *mn) {
            *mn = v[i];
        }
        if (v[i] > *mx) {
            *mx = v[i];
        }
    }
}
static void check_for_meta(const char *api, const varintFORMeta *m, uint64_t mn, uint64_t mx, size_t n, size_t wrote, int full) {
    int w = ref_bytes_of(mx - mn);
    if (m->count != n || m->minValue != mn || (int)m->offsetWidth != w || (wrote && m->encodedSize != wrote) ||
        (full && (m->maxValue != mx || m->range != mx - mn))) {
        AFAIL(api, "metadata_untrue", "%s: count=%zu/%zu min=%" PRIu64 "/%" PRIu64 " max=%" PRIu64 "/%" PRIu64 " range=%" PRIu64 " width=%d/%d encodedSize=%zu/%zu",
              cur_desc, m->count, n, m->minValue, mn, m->maxValue, mx, m->range, (int)m->offsetWidth, w, m->encodedSize, wrote);
    }
}
static void codec_for(const uint64_t *vals, size_t n) {
    uint64_t *in = in_vals(vals, n);
    uint64_t mn, mx;
    for_truth(vals, n, &mn, &mx);
    for (int batch = 0; batch < 2; batch++) {
        const char *eapi = batch ? "FOR.BatchEncode" : "FOR.Encode";
        varintFORMeta am;
        memset(&am, 0, sizeof am);
        if (!LIBCALL(batch ? "FOR.BatchAnalyze" : "FOR.Analyze", "analyze", batch ? varintFORBatchAnalyze(in, n, &am) : varintFORAnalyze(in, n, &am))) {
            continue;
        }
        size_t predicted = 0;
        if (!LIBCALL("FOR.Size", "size", predicted = varintFORSize(&am))) {
            continue;
        }
        if (M16) {
            check_for_meta(batch ? "FOR.BatchAnalyze" : "FOR.Analyze", &am, mn, mx, n, predicted, 1);
        }
        /* a frame analysed over the WHOLE array, reused for a chunk of it (count set to the chunk's length by the caller:
         * the documented 'already analysed' path): the returned size is the bytes written, the chunk decodes, and the
         * header read back says what was written */
        if (n >= 2 && n <= 5000 && (M16 || M02 || M03)) {
            size_t chunk = n / 2;
            varintFORMeta fm = am;
            fm.count = chunk;
            fm.encodedSize = am.encodedSize; /* left as the whole array's: the caller did not touch it */
            size_t room = 9 * chunk + 64;
            uint8_t *dst = vh_gb_get(G_DST, room + SLACK, 0xEE);
            size_t w2 = 0;
            if (LIBCALL(eapi, "encode a chunk with the whole array's frame", w2 = batch ? varintFORBatchEncode(dst, in, chunk, &fm) : varintFOREncode(dst, in, chunk, &fm))) {
                size_t hdr = (size_t)ref_tagged(dst[0] ? 0 : 0, (uint8_t[16]){0});
                (void)hdr;
                varintFORMeta rm2;
                memset(&rm2, 0, sizeof rm2);
                uint64_t *out = out_buf(chunk);
                size_t r2 = 0, at2 = 0;
                if (w2 == 0 || w2 > room) {
                    AFAIL(eapi, "metadata_untrue", "%s: chunk of %zu with the whole array's frame: returned %zu", cur_desc, chunk, w2);
                } else if (LIBCALL("FOR.ReadMetadata", "read header of the chunk", varintFORReadMetadata(dst, &rm2)) &&
                           LIBCALL("FOR.Decode", "decode the chunk", r2 = varintFORDecode(dst, out, chunk))) {
                    size_t truebytes = 0;
                    /* bytes really occupied: header (tagged min, width byte, tagged count) + count x width */
                    truebytes = (size_t)ref_tagged(rm2.minValue, (uint8_t[16]){0}) + 1 + (size_t)ref_tagged(rm2.count, (uint8_t[16]){0}) + rm2.count * (size_t)rm2.offsetWidth;
                    if (r2 != chunk || cmp_u64(out, vals, chunk, &at2)) {
                        AFAIL("FOR.Decode", "roundtrip_mismatch", "%s: chunk of %zu encoded with the whole array's frame: returned %zu", cur_desc, chunk, r2);
                    } else if (rm2.count != chunk || w2 != truebytes || rm2.encodedSize != truebytes) {
                        AFAIL(eapi, "metadata_untrue", "%s: chunk of %zu encoded with the whole array's frame: encoder returned %zu, the record occupies %zu bytes (header read back: count %zu width %d encodedSize %zu)", cur_desc, chunk, w2, truebytes,
                              rm2.count, (int)rm2.offsetWidth, rm2.encodedSize);
                    }
                }
            }
        }
        /* three ways to call the encoder: NULL meta, zeroed meta (filled), pre-analysed meta */
        for (int mm = 0; mm < 3; mm++) {
            varintFORMeta em;
            memset(&em, 0, sizeof em);
            if (mm == 2) {
                em = am;
            }
            uint8_t *dst = enc_dst(predicted, 9 * n + 32);
            size_t wrote = 0;
            if (!LIBCALL(eapi, "encode", wrote = batch ? varintFORBatchEncode(dst, in, n, mm ? &em : NULL) : varintFOREncode(dst, in, n, mm ? &em : NULL))) {
                continue;
            }
            check_bound(eapi, wrote, predicted, 1);
            if (M16 && mm) {
                check_for_meta(eapi, &em, mn, mx, n, wrote, 1);
            }
            if (mm != 1 && !M03) {
                continue; /* decode side once per encoder */
            }
            if (!(M02 || M16 || M13)) {
                continue;
            }
            uint8_t *enc = exact_copy(dst, wrote);
            if (M16) {
                varintFORMeta rm;
                memset(&rm, 0xEE, sizeof rm);
                size_t gc = 0;
                uint64_t gmin = 0;
                int gw = 0;
                if (LIBCALL("FOR.ReadMetadata", "read header", (varintFORReadMetadata(enc, &rm), gc = varintFORGetCount(enc), gmin = varintFORGetMinValue(enc), gw = (int)varintFORGetOffsetWidth(enc)))) {
                    check_for_meta("FOR.ReadMetadata", &rm, mn, mx, n, wrote, 0);
                    if (gc != n || gmin != mn || gw != ref_bytes_of(mx - mn)) {
                        AFAIL("FOR.GetCount/GetMinValue/GetOffsetWidth", "metadata_untrue", "%s: count=%zu min=%" PRIu64 " width=%d", cur_desc, gc, gmin, gw);
                    }
                    /* the size function applied to the metadata READ BACK from the record (the way a reader walks
                     * from one record to the next) equals the bytes the encoder wrote */
                    size_t rs = 0;
                    if (LIBCALL("FOR.Size", "size of the read-back metadata", rs = varintFORSize(&rm)) && rs != wrote) {
                        AFAIL("FOR.Size", "metadata_untrue", "%s: varintFORSize(metadata read back by ReadMetadata) = %zu, the encoder wrote %zu bytes (offsetWidth %d count %zu)", cur_desc, rs, wrote, (int)rm.offsetWidth, rm.count);
                    }
                }
            }
            if (M02) {
                for (int bd = 0; bd < 2; bd++) {
                    const char *dapi = bd ? "FOR.BatchDecode" : "FOR.Decode";
                    uint64_t *out = out_buf(n);
                    size_t r = 0, at = 0;
                    if (LIBCALL(dapi, "decode exact-size input", r = bd ? varintFORBatchDecode(enc, out, n) : varintFORDecode(enc, out, n))) {
                        if (r != n || cmp_u64(out, vals, n, &at)) {
                            AFAIL(dapi, "roundtrip_mismatch", "%s: returned %zu, element %zu = %" PRIu64 " want %" PRIu64, cur_desc, r, at, out[at < n ? at : 0], vals[at < n ? at : 0]);
                        }
                    }
                }
                size_t idx[512];
                size_t k = pick_indices(n, idx, 512);
                for (size_t j = 0; j < k; j++) {
                    uint64_t g = 0;
                    if (LIBCALL("FOR.GetAt", "random access", g = varintFORGetAt(enc, idx[j])) && g != vals[idx[j]]) {
                        AFAIL("FOR.GetAt", "random_access_mismatch", "%s: index %zu = %" PRIu64 " want %" PRIu64, cur_desc, idx[j], g, vals[idx[j]]);
                    }
                }
                static const size_t bsz[] = {1, 2, 16, 17};
                for (size_t j = 0; j < k; j++) {
                    for (size_t b = 0; b < 5; b++) {
                        size_t start = idx[j], bs = b < 4 ? bsz[b] : n;
                        if (n > 400 && b == 4 && j > 2) {
                            continue;
                        }
                        size_t want = start + bs > n ? n - start : bs;
                        uint64_t *out = out_buf(want);
                        size_t r = 0, at = 0;
                        if (LIBCALL("FOR.DecodeBlock", "block", r = varintFORDecodeBlock(enc, out, start, bs))) {
                            if (r != want || cmp_u64(out, vals + start, want, &at)) {
                                AFAIL("FOR.DecodeBlock", "random_access_mismatch", "%s: start=%zu size=%zu returned %zu (want %zu) first bad %zu", cur_desc, start, bs, r, want, at);
                            }
                        }
                    }
                }
            }
            if (M13) {
                g_caps_big = 1;
                CAP_SWEEP("FOR.Decode", n, vals, varintFORDecode(enc, out, c));
                g_caps_big = 0;
                g_caps_big = 1;
                CAP_SWEEP("FOR.BatchDecode", n, vals, varintFORBatchDecode(enc, out, c));
                g_caps_big = 0;
            }
            char ck[80];
            snprintf(ck, sizeof ck, "FOR/%s/minlen%d/w%d/cntlen%d", batch ? "batch" : "scalar", ref_tagged(mn, (uint8_t[16]){0}), ref_bytes_of(mx - mn), ref_tagged(n, (uint8_t[16]){0}));
            vh_class(ck, "%s", cur_desc);
        }
    }
}

/* ------------------------------------------------------------------ PFOR */
static void codec_pfor(const uint64_t *vals, size_t n) {
    static const uint32_t thr[3] = {90, 95, 99};
    uint64_t *in = in_vals(vals, n);
    for (int t = 0; t < 3; t++) {
        varintPFORMeta cm;
        memset(&cm, 0, sizeof cm);
        if (!LIBCALL("PFOR.ComputeThreshold", "threshold", varintPFORComputeThreshold(in, (uint32_t)n, thr[t], &cm))) {
            continue;
        }
        size_t predicted = 0;
        if (!LIBCALL("PFOR.Size", "size", predicted = varintPFORSize(&cm))) {
            continue;
        }
        uint8_t *dst = enc_dst(predicted, 19 * n + 64);
        varintPFORMeta em;
        memset(&em, 0, sizeof em);
        size_t wrote = 0;
        /* the encoder's meta argument is an output: first with the analysis of ANOTHER array of the same count,
         * percentile, minimum and exception ranks but a wider frame (every distance from the minimum x 1000), which
         * must change nothing - neither the bytes nor the advertised size */
        if (n <= 5000 && (M03 || M16)) {
            uint64_t mn0 = vals[0], mx0 = vals[0];
            for (size_t i = 1; i < n; i++) {
                mn0 = vals[i] < mn0 ? vals[i] : mn0;
                mx0 = vals[i] > mx0 ? vals[i] : mx0;
            }
            if (mx0 - mn0 < (1ULL << 40) && mn0 < (1ULL << 62)) {
                uint64_t *twin = malloc(8 * n);
                for (size_t i = 0; i < n; i++) {
                    twin[i] = mn0 + (vals[i] - mn0) * 1000;
                }
                varintPFORMeta tm;
                memset(&tm, 0, sizeof tm);
                size_t w2 = 0;
                if (varintPFORComputeThreshold(twin, (uint32_t)n, thr[t], &tm) != VARINT_WIDTH_INVALID &&
                    LIBCALL("PFOR.Encode", "encode with the analysis of another array in the meta argument", w2 = varintPFOREncode(dst, in, (uint32_t)n, thr[t], &tm))) {
                    if (w2 > predicted) {
                        AFAIL("PFOR.Encode", "size_underestimate", "%s thr=%u: with the meta argument holding the analysis of another array (same count, minimum and exception ranks, wider frame) %zu bytes were written, varintPFORSize of this array's analysis is %zu", cur_desc,
                              thr[t], w2, predicted);
                    }
                    if (M16 && (tm.width != cm.width || tm.min != cm.min || tm.exceptionCount != cm.exceptionCount)) {
                        AFAIL("PFOR.Encode", "metadata_untrue", "%s thr=%u: metadata after encoding with a stale meta argument: width %d min %" PRIu64 " exceptions %u; this array's analysis: width %d min %" PRIu64 " exceptions %u", cur_desc, thr[t],
                              (int)tm.width, tm.min, tm.exceptionCount, (int)cm.width, cm.min, cm.exceptionCount);
                    }
                }
                free(twin);
                dst = enc_dst(predicted, 19 * n + 64);
            }
        }
        if (!LIBCALL("PFOR.Encode", "encode", wrote = varintPFOREncode(dst, in, (uint32_t)n, thr[t], &em))) {
            continue;
        }
        check_bound("PFOR.Encode", wrote, predicted, 0);
        uint8_t *enc = exact_copy(dst, wrote);
        /* ground truth from the bytes: count stored markers that have a patch entry */
        varintPFORMeta rm;
        memset(&rm, 0, sizeof rm);
        size_t hdr = 0;
        if (!LIBCALL("PFOR.ReadMeta", "read header", hdr = varintPFORReadMeta(enc, &rm))) {
            continue;
        }
        uint64_t mn, mx;
        for_truth(vals, n, &mn, &mx);
        if (M16) {
            /* the size predictor on the metadata read back from the frame bounds the frame like the one on the
             * encoder's own metadata does */
            size_t srm = 0, sem = 0;
            if (LIBCALL("PFOR.Size", "size of the read-back metadata", (srm = varintPFORSize(&rm), sem = varintPFORSize(&em))) && (srm < wrote || srm != sem)) {
                AFAIL("PFOR.Size", "metadata_untrue", "%s thr=%u: varintPFORSize(read-back metadata) = %zu, of the encoder's metadata %zu, the encoder wrote %zu bytes", cur_desc, thr[t], srm, sem, wrote);
            }
            size_t want_hdr = (size_t)ref_tagged(mn, (uint8_t[16]){0}) + 1 + (size_t)ref_tagged(n, (uint8_t[16]){0});
            /* exceptions really stored = entries of the patch list */
            if (em.min != mn || em.count != n || rm.min != mn || rm.count != n || rm.width != em.width || rm.exceptionCount != em.exceptionCount || hdr != want_hdr) {
                AFAIL("PFOR.Encode/ReadMeta", "metadata_untrue", "%s thr=%u: enc{min=%" PRIu64 " count=%u width=%d exc=%u} read{min=%" PRIu64 " count=%u width=%d exc=%u hdr=%zu} truth{min=%" PRIu64 " count=%zu hdr=%zu}",
                      cur_desc, thr[t], em.min, em.count, (int)em.width, em.exceptionCount, rm.min, rm.count, (int)rm.width, rm.exceptionCount, hdr, mn, n, want_hdr);
            }
            /* the stored exception count must equal the number of (index,value) pairs that follow:
             * total length = header + n*width + tagged(exc) + pairs */
            size_t pos = want_hdr + n * (size_t)rm.width;
            if (pos < wrote) {
                uint64_t ec = 0;
                pos += varintTaggedGet64(enc + pos, &ec);
                size_t pairs = 0;
                while (pos < wrote) {
                    uint64_t a, b;
                    pos += varintTaggedGet64(enc + pos, &a);
                    if (pos >= wrote) {
                        break;
                    }
                    pos += varintTaggedGet64(enc + pos, &b);
                    pairs++;
                }
                if (ec != em.exceptionCount || pairs != ec || pos != wrote) {
                    AFAIL("PFOR.Encode", "metadata_untrue", "%s thr=%u: exceptionCount field=%" PRIu64 " meta=%u pairs present=%zu end=%zu/%zu", cur_desc, thr[t], ec, em.exceptionCount, pairs, pos, wrote);
                }
                /* ground truth from the frame itself: the exceptions are exactly the cells holding the all-ones
                 * marker, and every listed (index, value) pair names such a cell and the input value at it */
                if (rm.width >= 1 && rm.width <= 8) {
                    uint64_t marker = rm.width == 8 ? UINT64_MAX : ((1ULL << (8 * rm.width)) - 1);
                    size_t marked = 0;
                    for (size_t i = 0; i < n; i++) {
                        uint64_t cell = 0;
                        memcpy(&cell, enc + want_hdr + i * (size_t)rm.width, (size_t)rm.width);
                        marked += cell == marker;
                    }
                    size_t q = want_hdr + n * (size_t)rm.width, good = 0;
                    uint64_t ec2 = 0, last = 0;
                    q += varintTaggedGet64(enc + q, &ec2);
                    for (uint64_t e = 0; e < ec2 && q < wrote; e++) {
                        uint64_t a = 0, b = 0, cell = 0;
                        q += varintTaggedGet64(enc + q, &a);
                        if (q >= wrote) {
                            break;
                        }
                        q += varintTaggedGet64(enc + q, &b);
                        if (a < n && (e == 0 || a > last) && b == vals[a]) {
                            memcpy(&cell, enc + want_hdr + a * (size_t)rm.width, (size_t)rm.width);
                            good += cell == marker;
                        }
                        last = a;
                    }
                    if (marked != em.exceptionCount || good != marked || cm.exceptionCount != marked) {
                        AFAIL("PFOR.Encode", "metadata_untrue", "%s thr=%u: %zu cells of the frame hold the exception marker, %zu listed pairs name such a cell with the input's value, but exceptionCount is %u (ComputeThreshold said %u)", cur_desc,
                              thr[t], marked, good, em.exceptionCount, cm.exceptionCount);
                    }
                }
            } else if (em.exceptionCount != 0 || cm.exceptionCount != 0) {
                AFAIL("PFOR.Encode", "metadata_untrue", "%s thr=%u: no exception section present but exceptionCount is %u", cur_desc, thr[t], em.exceptionCount);
            }
        }
        if (M02) {
            for (int mm = 0; mm < 2; mm++) {
                varintPFORMeta dm;
                memset(&dm, 0, sizeof dm);
                if (mm) {
                    dm = em;
                }
                uint64_t *out = out_buf(n);
                size_t r = 0, at = 0;
                if (LIBCALL("PFOR.Decode", mm ? "decode with encoder meta" : "decode reading meta", r = varintPFORDecode(enc, out, &dm))) {
                    if (r != n || cmp_u64(out, vals, n, &at)) {
                        AFAIL("PFOR.Decode", "roundtrip_mismatch", "%s thr=%u: returned %zu, element %zu = %" PRIu64 " want %" PRIu64, cur_desc, thr[t], r, at, out[at < n ? at : 0], vals[at < n ? at : 0]);
                    }
                }
            }
            size_t idx[512];
            size_t k = pick_indices(n, idx, 512);
            for (size_t j = 0; j < k; j++) {
                uint64_t g = 0;
                if (LIBCALL("PFOR.GetAt", "random access", g = varintPFORGetAt(enc, (uint32_t)idx[j], &rm)) && g != vals[idx[j]]) {
                    AFAIL("PFOR.GetAt", "random_access_mismatch", "%s thr=%u: index %zu = %" PRIu64 " want %" PRIu64, cur_desc, thr[t], idx[j], g, vals[idx[j]]);
                }
            }
        }
        char ck[96];
        snprintf(ck, sizeof ck, "PFOR/t%u/w%d/exc%s/cntlen%d", thr[t], (int)em.width, em.exceptionCount == 0 ? "0" : em.exceptionCount < 241 ? "small" : "large", ref_tagged(n, (uint8_t[16]){0}));
        vh_class(ck, "%s", cur_desc);
    }
}

/* ------------------------------------------------------------------ group */
static void codec_group(const uint64_t *vals, size_t n) {
    if (n > 64) {
        return;
    }
    uint64_t *in = in_vals(vals, n);
    size_t predicted = 0;
    if (!LIBCALL("group.Size", "size", predicted = varintGroupSize(in, (uint8_t)n))) {
        return;
    }
    uint8_t *dst = enc_dst(predicted, 8 * n + 32);
    size_t wrote = 0;
    if (!LIBCALL("group.Encode", "encode", wrote = varintGroupEncode(dst, in, (uint8_t)n))) {
        return;
    }
    check_bound("group.Encode", wrote, predicted, 1);
    uint8_t *enc = exact_copy(dst, wrote);
    if (M16) {
        size_t gs = 0;
        uint8_t fc = 0;
        if (LIBCALL("group.GetSize", "self-measured size", (gs = varintGroupGetSize(enc), fc = varintGroupGetFieldCount(enc)))) {
            if (gs != wrote || fc != n || predicted != wrote) {
                AFAIL("group.GetSize", "metadata_untrue", "%s: GetSize=%zu Size=%zu wrote=%zu fieldCount=%u", cur_desc, gs, predicted, wrote, fc);
            }
        }
        for (size_t i = 0; i < n; i++) {
            int w = 0;
            if (LIBCALL("group.GetFieldWidth", "width", w = (int)varintGroupGetFieldWidth(enc, (uint8_t)i))) {
                int need = ref_bytes_of(vals[i]);
                int want = need <= 1 ? 1 : need <= 2 ? 2 : need <= 4 ? 4 : 8;
                if (w != want) {
                    AFAIL("group.GetFieldWidth", "metadata_untrue", "%s: field %zu width %d want %d", cur_desc, i, w, want);
                }
            }
        }
    }
    if (M16) {
        /* the size and field count the DECODER reports equal what the encoder wrote, whatever room the caller offers */
        static const size_t ROOM[] = {0, 64, 100, 255, 256, 257, 300, 512, 1000, 1024, 4096, 65535, 65536, (size_t)1 << 32, ((size_t)1 << 32) + 7, SIZE_MAX};
        for (size_t ri = 0; ri < sizeof ROOM / sizeof *ROOM; ri++) {
            size_t room = ROOM[ri] ? ROOM[ri] : n;
            if (room < n) {
                continue;
            }
            uint64_t *out = out_buf(n);
            uint8_t fc = 0xEE;
            size_t r = 0;
            if (LIBCALL("group.Decode", "decode with room for more fields", r = varintGroupDecode(enc, out, &fc, room))) {
                if (r != wrote || fc != n) {
                    AFAIL("group.Decode", "metadata_untrue", "%s: room for %zu fields: decoder reports %zu bytes and %u fields, the encoder wrote %zu bytes and %zu fields", cur_desc, room, r, fc, wrote, n);
                    break;
                }
            }
        }
    }
    if (M02) {
        uint64_t *out = out_buf(n);
        uint8_t fc = 0;
        size_t r = 0, at = 0;
        if (LIBCALL("group.Decode", "decode exact-size input", r = varintGroupDecode(enc, out, &fc, n))) {
            if (r != wrote || fc != n || cmp_u64(out, vals, n, &at)) {
                AFAIL("group.Decode", "roundtrip_mismatch", "%s: consumed %zu/%zu fields %u element %zu", cur_desc, r, wrote, fc, at);
            }
        }
        {
            /* the Put/Get convenience wrappers are the same codec */
            uint8_t *d2 = vh_gb_get(G_AUX, wrote, 0xEE);
            size_t w2 = 0, r2 = 0;
            uint8_t fc2 = 0;
            if (LIBCALL("group.Put", "wrapper", w2 = varintGroupPut(d2, in, (uint8_t)n)) && (w2 != wrote || memcmp(d2, enc, wrote))) {
                AFAIL("group.Put", "roundtrip_mismatch", "%s: Put wrote %zu bytes, Encode %zu", cur_desc, w2, wrote);
            }
            uint64_t *o2 = out_buf(n);
            if (LIBCALL("group.Get", "wrapper", r2 = varintGroupGet(enc, o2, &fc2, n)) && (r2 != wrote || fc2 != n || cmp_u64(o2, vals, n, &at))) {
                AFAIL("group.Get", "roundtrip_mismatch", "%s: Get consumed %zu fields %u", cur_desc, r2, fc2);
            }
        }
        for (size_t i = 0; i < n; i++) {
            uint64_t g = ~vals[i];
            size_t rr = 0;
            if (LIBCALL("group.GetField", "random access", rr = varintGroupGetField(enc, (uint8_t)i, &g))) {
                if (rr == 0 || g != vals[i]) {
                    AFAIL("group.GetField", "random_access_mismatch", "%s: field %zu = %" PRIu64 " want %" PRIu64 " ret=%zu", cur_desc, i, g, vals[i], rr);
                }
            }
        }
    }
    if (M13) {
        /* group returns bytes consumed, not a count: adapt to the prefix oracle */
        size_t caps[120];
        g_caps_big = 1; /* the group carries its field count */
        size_t nc = pick_caps(n, caps);
        g_caps_big = 0;
        for (size_t ci = 0; ci < nc; ci++) {
            size_t c = caps[ci];
            uint64_t *out = out_buf(c > n ? n : c);
            uint8_t fc = 0xEE;
            size_t r = 0, at = 0;
            char what[48];
            snprintf(what, sizeof what, "capacity=%zu of n=%zu", c, n);
            if (!LIBCALL("group.Decode", what, r = varintGroupDecode(enc, out, &fc, c))) {
                continue;
            }
            if (c < n && r != 0) {
                AFAIL("group.Decode", "returns_more_than_capacity", "%s: maxFields=%zu returned %zu", cur_desc, c, r);
            }
            if (c >= n && (r != wrote || fc != n || cmp_u64(out, vals, n, &at))) {
                AFAIL("group.Decode", "roundtrip_mismatch", "%s: maxFields=%zu (>= n=%zu): returned %zu bytes (encoder wrote %zu), field count %u", cur_desc, c, n, r, wrote, fc);
            }
            vh_count("cap_cases", 1);
        }
    }
    char ck[64];
    int wmask = 0;
    for (size_t i = 0; i < n; i++) {
        int need = ref_bytes_of(vals[i]);
        wmask |= need <= 1 ? 1 : need <= 2 ? 2 : need <= 4 ? 4 : 8;
    }
    snprintf(ck, sizeof ck, "group/n%zu/widths%x", n, wmask);
    vh_class(ck, "%s", cur_desc);
}

/* ------------------------------------------------------------------ dict */
static void codec_dict(const uint64_t *vals, size_t n) {
    uint64_t *in = in_vals(vals, n);
    size_t predicted = 0;
    if (!LIBCALL("dict.EncodedSize", "size", predicted = varintDictEncodedSize(in, n))) {
        return;
    }
    /* withdict 0: one-shot encoder; 1: a fresh dictionary object; 2 / 3: a dictionary object that was first built for
     * ANOTHER data set of a different index-width class (300 distinct values: 2-byte indices; 8 distinct: 1-byte);
     * 4 / 5: a dictionary object that was first built for - and queried about - a twin of this input with the SAME number
     * of distinct values but narrower (the ranks 0..k-1) / wider (2^64-1-rank) entries: anything the object remembers
     * about its previous contents under "same entry count" is stale */
    for (int withdict = 0; withdict < 6; withdict++) {
        const char *eapi = withdict ? "dict.EncodeWithDict" : "dict.Encode";
        if (withdict >= 2 && n > 5000) {
            continue;
        }
        uint8_t *dst = enc_dst(predicted, 20 * n + 64);
        size_t wrote = 0;
        if (withdict) {
            varintDict *d = NULL;
            int rc = -1;
            size_t p2 = 0;
            d = varintDictCreate(); /* vmalloc inactive here: real malloc, object lives across calls */
            if (!d) {
                continue;
            }
            if (withdict >= 4) {
                uint64_t *srt = malloc(8 * n), *tw = malloc(8 * n);
                memcpy(srt, vals, 8 * n);
                qsort(srt, n, 8, u64cmp_corpus);
                size_t k = 0;
                for (size_t i = 0; i < n; i++) {
                    if (i == 0 || srt[i] != srt[k - 1]) {
                        srt[k++] = srt[i];
                    }
                }
                for (size_t i = 0; i < n; i++) {
                    size_t lo = 0, hi = k;
                    while (lo + 1 < hi) {
                        size_t mid = (lo + hi) / 2;
                        if (srt[mid] <= vals[i]) {
                            lo = mid;
                        } else {
                            hi = mid;
                        }
                    }
                    tw[i] = withdict == 4 ? (uint64_t)lo : UINT64_MAX - (uint64_t)lo;
                }
                int okp = varintDictBuild(d, tw, n) == 0;
                if (okp) { /* every query a caller may make between the two builds */
                    (void)varintDictEncodedSizeWithDict(d, n);
                    (void)varintDictFind(d, tw[0]);
                    (void)varintDictLookup(d, 0);
                    uint8_t *scratch = malloc(20 * n + 64);
                    (void)varintDictEncodeWithDict(scratch, d, tw, n);
                    free(scratch);
                }
                free(srt);
                free(tw);
                if (!okp) {
                    varintDictFree(d);
                    continue;
                }
            } else if (withdict >= 2) {
                static uint64_t prior[600];
                size_t np = withdict == 2 ? 600 : 24, nd = withdict == 2 ? 300 : 8;
                for (size_t i = 0; i < np; i++) {
                    prior[i] = (i % nd) * 1000003ULL + 5;
                }
                if (varintDictBuild(d, prior, np) != 0) {
                    varintDictFree(d);
                    continue;
                }
            }
            int ok = LIBCALL("dict.Build", withdict >= 2 ? "rebuild of a populated dictionary" : "build", rc = varintDictBuild(d, in, n)) && rc == 0 &&
                     LIBCALL("dict.EncodedSizeWithDict", "size", p2 = varintDictEncodedSizeWithDict(d, n)) &&
                     LIBCALL(eapi, "encode", wrote = varintDictEncodeWithDict(dst, d, in, n));
            if (ok && p2 != predicted) {
                AFAIL("dict.EncodedSizeWithDict", "size_not_exact", "%s: WithDict=%zu EncodedSize=%zu", cur_desc, p2, predicted);
            }
            varintDictFree(d);
            if (!ok) {
                continue;
            }
        } else if (!LIBCALL(eapi, "encode", wrote = varintDictEncode(dst, in, n))) {
            continue;
        }
        if (wrote == 0) {
            /* a reported refusal is legitimate only outside the format's domain: more distinct values than the
             * decoders' documented dictionary cap (1,048,576 entries); then the size predictor must agree */
            size_t distinct = 0;
            if (n > 1048576) {
                uint64_t *tmp = malloc(8 * n);
                memcpy(tmp, vals, 8 * n);
                qsort(tmp, n, 8, u64cmp_corpus);
                for (size_t i = 0; i < n; i++) {
                    distinct += i == 0 || tmp[i] != tmp[i - 1];
                }
                free(tmp);
            }
            if (distinct <= 1048576 || predicted != 0) {
                AFAIL(eapi, "roundtrip_mismatch", "%s: encoder returned 0 (size predictor %zu, %zu distinct values)", cur_desc, predicted, distinct);
            } else {
                vh_count("dict_refusals_above_entry_cap", 1);
            }
            continue;
        }
        check_bound(eapi, wrote, predicted, 1);
        uint8_t *enc = exact_copy(dst, wrote);
        if (M02) {
            uint64_t *out = out_buf(n);
            size_t r = 0, at = 0;
            if (LIBCALL("dict.DecodeInto", "decode exact-size input", r = varintDictDecodeInto(enc, wrote, out, n))) {
                if (r != n || cmp_u64(out, vals, n, &at)) {
                    AFAIL("dict.DecodeInto", "roundtrip_mismatch", "%s: returned %zu element %zu", cur_desc, r, at);
                }
            }
            /* allocating decoder: result must be freed with free(); served by the real allocator here */
            uint64_t *res = NULL;
            size_t oc = 0;
            cur_api = "dict.Decode";
            if (SB_ENTER()) {
                res = varintDictDecode(enc, wrote, &oc);
                SB_LEAVE();
                if (!res || oc != n || cmp_u64(res, vals, n, &at)) {
                    AFAIL("dict.Decode", "roundtrip_mismatch", "%s: res=%p count=%zu element %zu", cur_desc, (void *)res, oc, at);
                }
                free(res);
            } else {
                report_fault("dict.Decode", "decode exact-size input");
            }
            vh_count("calls", 1);
        }
        if (M13) {
            g_caps_big = 1;
                CAP_SWEEP("dict.DecodeInto", n, vals, varintDictDecodeInto(enc, wrote, out, c));
                g_caps_big = 0;
        }
        char ck[64];
        snprintf(ck, sizeof ck, "dict/%s/dictsizelen%d/cntlen%d/idxw%d", withdict ? "with" : "auto", (int)varintTaggedGetLen(enc), ref_tagged(n, (uint8_t[16]){0}), 0);
        vh_class(ck, "%s", cur_desc);
    }
}

/* ------------------------------------------------------------------ RLE */
static size_t truth_runs(const uint64_t *v, size_t n) {
    size_t r = n ? 1 : 0;
    for (size_t i = 1; i < n; i++) {
        r += v[i] != v[i - 1];
    }
    return r;
}
static void codec_rle(const uint64_t *vals, size_t n) {
    uint64_t *in = in_vals(vals, n);
    size_t maxsz = varintRLEMaxSize(n);
    size_t predicted = 0;
    if (!LIBCALL("RLE.Size", "size", predicted = varintRLESize(in, n))) {
        return;
    }
    size_t runs = truth_runs(vals, n);
    for (int hdr = 0; hdr < 2; hdr++) {
        const char *eapi = hdr ? "RLE.EncodeWithHeader" : "RLE.Encode";
        /* two C03 obligations: the max bound, and (headerless) the exact predictor */
        for (int which = 0; which < (M03 ? 2 : 1); which++) {
            size_t bound = which == 0 ? maxsz : predicted + (hdr ? (size_t)ref_tagged(n, (uint8_t[16]){0}) : 0);
            uint8_t *dst = enc_dst(bound, 18 * n + 32);
            varintRLEMeta em;
            memset(&em, 0xEE, sizeof em);
            size_t wrote = 0;
            if (!LIBCALL(eapi, which ? "encode into predicted size" : "encode into MaxSize", wrote = hdr ? varintRLEEncodeWithHeader(dst, in, n, &em) : varintRLEEncode(dst, in, n, &em))) {
                continue;
            }
            check_bound(eapi, wrote, bound, which == 1);
            if (which) {
                continue;
            }
            uint8_t *enc = exact_copy(dst, wrote);
            if (M16) {
                size_t rc = 0, gc = n;
                if (LIBCALL("RLE.GetRunCount", "run count", (rc = varintRLEGetRunCount(enc + (hdr ? varintTaggedGetLen(enc) : 0), wrote - (hdr ? varintTaggedGetLen(enc) : 0)), gc = hdr ? varintRLEGetCount(enc) : n))) {
                    if (em.count != n || em.runCount != runs || em.encodedSize != wrote || rc != runs || gc != n) {
                        AFAIL(eapi, "metadata_untrue", "%s: meta{count=%zu runs=%zu size=%zu} GetRunCount=%zu GetCount=%zu truth{n=%zu runs=%zu wrote=%zu}", cur_desc, em.count, em.runCount, em.encodedSize, rc, gc, n, runs, wrote);
                    }
                }
                varintRLEMeta am;
                memset(&am, 0xEE, sizeof am);
                if (!hdr && LIBCALL("RLE.Analyze", "analyze", varintRLEAnalyze(in, n, &am))) {
                    if (am.count != n || am.runCount != runs || am.encodedSize != wrote) {
                        AFAIL("RLE.Analyze", "metadata_untrue", "%s: analyze{count=%zu runs=%zu size=%zu} truth{n=%zu runs=%zu wrote=%zu}", cur_desc, am.count, am.runCount, am.encodedSize, n, runs, wrote);
                    }
                }
            }
            if (M02) {
                uint64_t *out = out_buf(n);
                size_t r = 0, at = 0;
                const char *dapi = hdr ? "RLE.DecodeWithHeader" : "RLE.Decode";
                if (LIBCALL(dapi, "decode exact-size input", r = hdr ? varintRLEDecodeWithHeader(enc, out, n) : varintRLEDecode(enc, out, n))) {
                    if (r != n || cmp_u64(out, vals, n, &at)) {
                        AFAIL(dapi, "roundtrip_mismatch", "%s: returned %zu element %zu", cur_desc, r, at);
                    }
                }
                if (!hdr) {
                    size_t idx[512];
                    size_t k = pick_indices(n, idx, runs > 2000 ? 24 : 512);
                    for (size_t j = 0; j < k; j++) {
                        uint64_t g = 0;
                        if (LIBCALL("RLE.GetAt", "random access", g = varintRLEGetAt(enc, idx[j])) && g != vals[idx[j]]) {
                            AFAIL("RLE.GetAt", "random_access_mismatch", "%s: index %zu = %" PRIu64 " want %" PRIu64, cur_desc, idx[j], g, vals[idx[j]]);
                        }
                    }
                    /* walk runs with DecodeRun */
                    size_t pos = 0, total = 0, nr = 0;
                    int bad = 0;
                    while (pos < wrote && !bad) {
                        size_t rl = 0, used = 0;
                        uint64_t val = 0;
                        if (!LIBCALL("RLE.DecodeRun", "run walk", used = varintRLEDecodeRun(enc + pos, &rl, &val))) {
                            bad = 1;
                            break;
                        }
                        if (rl == 0 || total + rl > n || val != vals[total]) {
                            bad = 2;
                            break;
                        }
                        total += rl;
                        pos += used;
                        nr++;
                    }
                    if (bad == 2 || (!bad && (total != n || nr != runs || pos != wrote))) {
                        AFAIL("RLE.DecodeRun", "random_access_mismatch", "%s: run walk total=%zu runs=%zu pos=%zu/%zu", cur_desc, total, nr, pos, wrote);
                    }
                }
            }
            if (M13) {
                if (hdr) {
                    g_caps_big = 1;
                CAP_SWEEP("RLE.DecodeWithHeader", n, vals, varintRLEDecodeWithHeader(enc, out, c));
                g_caps_big = 0;
                } else {
                    CAP_SWEEP("RLE.Decode", n, vals, varintRLEDecode(enc, out, c));
                }
            }
            char ck[64];
            snprintf(ck, sizeof ck, "RLE/%s/runs%s/cntlen%d", hdr ? "hdr" : "raw", runs == 1 ? "1" : runs == n ? "n" : runs < 241 ? "few" : "many", ref_tagged(n, (uint8_t[16]){0}));
            vh_class(ck, "%s", cur_desc);
        }
    }
}

/* ------------------------------------------------------------------ Elias */
static void codec_elias(const uint64_t *vals, size_t n) {
    /* domain: values >= 1 (0 is mapped to 1) */
    uint64_t *tmp = malloc(n * 8);
    for (size_t i = 0; i < n; i++) {
        tmp[i] = vals[i] ? vals[i] : 1;
    }
    uint64_t *in = in_vals(tmp, n);
    for (int delta = 0; delta < 2; delta++) {
        const char *eapi = delta ? "elias.DeltaEncodeArray" : "elias.GammaEncodeArray";
        const char *dapi = delta ? "elias.DeltaDecodeArray" : "elias.GammaDecodeArray";
        size_t bound = delta ? varintEliasDeltaMaxBytes(n) : varintEliasGammaMaxBytes(n);
        size_t truebits = 0;
        char bits[160];
        for (size_t i = 0; i < n; i++) {
            truebits += (size_t)(delta ? ref_elias_delta_bits(tmp[i], bits) : ref_elias_gamma_bits(tmp[i], bits));
        }
        uint8_t *dst = enc_dst(bound, 16 * n + 16);
        varintEliasMeta em;
        memset(&em, 0xEE, sizeof em);
        size_t wrote = 0;
        if (!LIBCALL(eapi, "encode", wrote = delta ? varintEliasDeltaEncodeArray(dst, in, n, &em) : varintEliasGammaEncodeArray(dst, in, n, &em))) {
            continue;
        }
        check_bound(eapi, wrote, bound, 0);
        if (M16) {
            if (em.count != n || em.totalBits != truebits || em.encodedBytes != (truebits + 7) / 8 || wrote != em.encodedBytes) {
                AFAIL(eapi, "metadata_untrue", "%s: meta{count=%zu bits=%zu bytes=%zu} ret=%zu truth{n=%zu bits=%zu}", cur_desc, em.count, em.totalBits, em.encodedBytes, wrote, n, truebits);
            }
        }
        uint8_t *enc = exact_copy(dst, wrote);
        if (M02) {
            uint64_t *out = out_buf(n);
            size_t r = 0, at = 0;
            if (LIBCALL(dapi, "decode exact-size input", r = delta ? varintEliasDeltaDecodeArray(enc, truebits, out, n) : varintEliasGammaDecodeArray(enc, truebits, out, n))) {
                if (r != n || cmp_u64(out, tmp, n, &at)) {
                    AFAIL(dapi, "roundtrip_mismatch", "%s: returned %zu element %zu", cur_desc, r, at);
                }
            }
        }
        if (M13) {
            if (delta) {
                g_caps_big = 1;
                CAP_SWEEP(dapi, n, tmp, varintEliasDeltaDecodeArray(enc, truebits, out, c));
                g_caps_big = 0;
            } else {
                g_caps_big = 1;
                CAP_SWEEP(dapi, n, tmp, varintEliasGammaDecodeArray(enc, truebits, out, c));
                g_caps_big = 0;
            }
        }
        char ck[64];
        snprintf(ck, sizeof ck, "elias/%s/avgbits%zu", delta ? "delta" : "gamma", truebits / n / 8 * 8);
        vh_class(ck, "%s", cur_desc);
    }
    free(tmp);
}

/* ------------------------------------------------------------------ BP128 */
static void codec_bp128(const uint64_t *vals, size_t n) {
    /* 64-bit raw */
    uint64_t *in = in_vals(vals, n);
    size_t bound = varintBP128MaxBytes(n);
    char ck[80];
    {
        uint8_t *dst = enc_dst(bound, 9 * n + 64);
        varintBP128Meta em;
        memset(&em, 0xEE, sizeof em);
        size_t wrote = 0;
        if (LIBCALL("BP128.Encode64", "encode", wrote = varintBP128Encode64(dst, in, n, &em))) {
            check_bound("BP128.Encode64", wrote, bound, 0);
            uint8_t *enc = exact_copy(dst, wrote);
            if (M16) {
                size_t gc = 0;
                LIBCALL("BP128.GetCount", "count", gc = varintBP128GetCount(enc, wrote));
                size_t last = n % 128 ? n % 128 : 128;
                if (em.count != n || em.blockCount != (n + 127) / 128 || em.encodedBytes != wrote || em.lastBlockSize != last || gc != n) {
                    AFAIL("BP128.Encode64", "metadata_untrue", "%s: meta{count=%zu blocks=%zu bytes=%zu last=%zu} GetCount=%zu truth{n=%zu wrote=%zu}", cur_desc, em.count, em.blockCount, em.encodedBytes, em.lastBlockSize, gc, n, wrote);
                }
            }
            if (M02) {
                uint64_t *out = out_buf(n);
                size_t r = 0, at = 0;
                if (LIBCALL("BP128.Decode64", "decode exact-size input", r = varintBP128Decode64(enc, out, n))) {
                    if (r != n || cmp_u64(out, vals, n, &at)) {
                        AFAIL("BP128.Decode64", "roundtrip_mismatch", "%s: returned %zu element %zu", cur_desc, r, at);
                    }
                }
            }
            if (M13) {
                CAP_SWEEP("BP128.Decode64", n, vals, varintBP128Decode64(enc, out, c));
            }
            snprintf(ck, sizeof ck, "BP128/64/maxbits%d/blocks%s/cntlen%d", em.maxBitWidth, n < 128 ? "partial" : n % 128 ? "full+partial" : "full", ref_tagged(n, (uint8_t[16]){0}));
            vh_class(ck, "%s", cur_desc);
        }
    }
    /* 64-bit delta: domain non-decreasing -> sorted copy */
    uint64_t *sorted = malloc(n * 8);
    memcpy(sorted, vals, n * 8);
    qsort(sorted, n, 8, u64cmp_corpus);
    {
        uint64_t *sin = in_vals(sorted, n);
        uint8_t *dst = enc_dst(bound, 9 * n + 64);
        varintBP128Meta em;
        memset(&em, 0xEE, sizeof em);
        size_t wrote = 0;
        if (LIBCALL("BP128.DeltaEncode64", "encode", wrote = varintBP128DeltaEncode64(dst, sin, n, &em))) {
            check_bound("BP128.DeltaEncode64", wrote, bound, 0);
            uint8_t *enc = exact_copy(dst, wrote);
            if (M16) {
                size_t blocks = (n - 1 + 127) / 128;
                size_t last = (n - 1) % 128 ? (n - 1) % 128 : 128;
                if (em.count != n || em.blockCount != blocks || em.encodedBytes != wrote || (blocks > 0 && em.lastBlockSize != last)) {
                    AFAIL("BP128.DeltaEncode64", "metadata_untrue", "%s: meta{count=%zu blocks=%zu bytes=%zu last=%zu} truth{n=%zu blocks=%zu last=%zu wrote=%zu}", cur_desc, em.count, em.blockCount, em.encodedBytes, em.lastBlockSize, n, blocks, last, wrote);
                }
            }
            if (M02) {
                uint64_t *out = out_buf(n);
                size_t r = 0, at = 0;
                if (LIBCALL("BP128.DeltaDecode64", "decode exact-size input", r = varintBP128DeltaDecode64(enc, out, n))) {
                    if (r != n || cmp_u64(out, sorted, n, &at)) {
                        AFAIL("BP128.DeltaDecode64", "roundtrip_mismatch", "%s(sorted): returned %zu element %zu", cur_desc, r, at);
                    }
                }
            }
            if (M13) {
                CAP_SWEEP("BP128.DeltaDecode64", n, sorted, varintBP128DeltaDecode64(enc, out, c));
            }
            snprintf(ck, sizeof ck, "BP128/delta64/maxbits%d/firstlen%d/blocks%zu", em.maxBitWidth, ref_tagged(sorted[0], (uint8_t[16]){0}), (n - 1 + 127) / 128 > 3 ? 3 : (n - 1 + 127) / 128);
            vh_class(ck, "%s", cur_desc);
        }
    }
    /* 32-bit forms: values truncated to 32 bits */
    uint32_t *v32 = malloc(n * 4 + 4), *s32 = malloc(n * 4 + 4);
    for (size_t i = 0; i < n; i++) {
        v32[i] = (uint32_t)vals[i];
        s32[i] = (uint32_t)vals[i];
    }
    qsort(s32, n, 4, u32cmp_corpus);
    if (M16) {
        /* analysis helpers report real properties of the data */
        uint64_t mx64 = 0;
        uint32_t mx32 = 0;
        int sorted64 = 1, sorted32 = 1;
        for (size_t i = 0; i < n; i++) {
            mx64 = vals[i] > mx64 ? vals[i] : mx64;
            mx32 = v32[i] > mx32 ? v32[i] : mx32;
            if (i && vals[i] < vals[i - 1]) {
                sorted64 = 0;
            }
            if (i && v32[i] < v32[i - 1]) {
                sorted32 = 0;
            }
        }
        int b64 = mx64 ? 64 - __builtin_clzll(mx64) : 0, b32 = mx32 ? 32 - __builtin_clz(mx32) : 0;
        uint32_t *in32h = (uint32_t *)in_get(n * 4, 4);
        memcpy(in32h, v32, n * 4);
        int g32 = -1, s32r = -1;
        if (LIBCALL("BP128.MaxBitWidth32/IsSorted32", "helpers", (g32 = varintBP128MaxBitWidth32(in32h, n), s32r = varintBP128IsSorted32(in32h, n)))) {
            if (g32 != b32 || s32r != sorted32 || varintBP128BitsNeeded32(mx32) != b32) {
                AFAIL("BP128.MaxBitWidth32/IsSorted32", "metadata_untrue", "%s: max bit width %d (truth %d), sorted %d (truth %d)", cur_desc, g32, b32, s32r, sorted32);
            }
        }
        uint64_t *in64h = in_vals(vals, n);
        int g64 = -1, s64r = -1;
        if (LIBCALL("BP128.MaxBitWidth64/IsSorted64", "helpers", (g64 = varintBP128MaxBitWidth64(in64h, n), s64r = varintBP128IsSorted64(in64h, n)))) {
            if (g64 != b64 || s64r != sorted64 || varintBP128BitsNeeded64(mx64) != b64) {
                AFAIL("BP128.MaxBitWidth64/IsSorted64", "metadata_untrue", "%s: max bit width %d (truth %d), sorted %d (truth %d)", cur_desc, g64, b64, s64r, sorted64);
            }
        }
    }
    for (int delta = 0; delta < 2; delta++) {
        const uint32_t *src = delta ? s32 : v32;
        uint32_t *in32 = (uint32_t *)in_get(n * 4, 4);
        memcpy(in32, src, n * 4);
        const char *eapi = delta ? "BP128.DeltaEncode32" : "BP128.Encode32";
        const char *dapi = delta ? "BP128.DeltaDecode32" : "BP128.Decode32";
        uint8_t *dst = enc_dst(bound, 5 * n + 64);
        varintBP128Meta em;
        memset(&em, 0xEE, sizeof em);
        size_t wrote = 0;
        if (!LIBCALL(eapi, "encode", wrote = delta ? varintBP128DeltaEncode32(dst, in32, n, &em) : varintBP128Encode32(dst, in32, n, &em))) {
            continue;
        }
        check_bound(eapi, wrote, bound, 0);
        uint8_t *enc = exact_copy(dst, wrote);
        if (M16) {
            size_t m = delta ? n - 1 : n;
            size_t blocks = (m + 127) / 128;
            size_t last = m % 128 ? m % 128 : 128;
            if (em.count != n || em.blockCount != blocks || em.encodedBytes != wrote || (blocks > 0 && em.lastBlockSize != last)) {
                AFAIL(eapi, "metadata_untrue", "%s: meta{count=%zu blocks=%zu bytes=%zu last=%zu} truth{n=%zu blocks=%zu last=%zu wrote=%zu}", cur_desc, em.count, em.blockCount, em.encodedBytes, em.lastBlockSize, n, blocks, last, wrote);
            }
        }
        if (M02) {
            uint32_t *out = (uint32_t *)vh_gb_get(G_OUT, n * 4, 0xAB);
            size_t r = 0;
            if (LIBCALL(dapi, "decode exact-size input", r = delta ? varintBP128DeltaDecode32(enc, out, n) : varintBP128Decode32(enc, out, n))) {
                if (r != n || memcmp(out, src, n * 4)) {
                    AFAIL(dapi, "roundtrip_mismatch", "%s(32-bit%s): returned %zu", cur_desc, delta ? ", sorted" : "", r);
                }
            }
        }
        if (M13) {
            size_t caps[512];
            size_t nc = pick_caps(n, caps);
            for (size_t ci = 0; ci < nc; ci++) {
                size_t c = caps[ci];
                uint32_t *out = (uint32_t *)vh_gb_get(G_OUT, (c > n ? n : c) * 4, 0xAB);
                size_t r = 0;
                char what[48];
                snprintf(what, sizeof what, "capacity=%zu of n=%zu", c, n);
                if (!LIBCALL(dapi, what, r = delta ? varintBP128DeltaDecode32(enc, out, c) : varintBP128Decode32(enc, out, c))) {
                    continue;
                }
                if (r > c || r > n || memcmp(out, src, r * 4) || (c >= n && r != n)) {
                    AFAIL(dapi, r > c ? "returns_more_than_capacity" : "wrong_prefix", "%s: capacity=%zu returned %zu", cur_desc, c, r);
                }
                vh_count("cap_cases", 1);
            }
        }
        snprintf(ck, sizeof ck, "BP128/%s32/maxbits%d/blocks%s", delta ? "delta" : "", em.maxBitWidth, n < 128 ? "partial" : n % 128 ? "full+partial" : "full");
        vh_class(ck, "%s", cur_desc);
    }
    /* block functions on every complete 128-chunk */
    if (M02 && n >= 128) {
        for (size_t b = 0; b + 128 <= n && b < 4224; b += 128) {
            uint32_t *in32 = (uint32_t *)in_get(128 * 4, 4);
            memcpy(in32, v32 + b, 128 * 4);
            uint8_t *dst = vh_gb_get(G_DST, 1 + 128 * 4, 0xEE);
            size_t wrote = 0, rd = 0;
            uint32_t outb[128];
            if (LIBCALL("BP128.EncodeBlock32", "block", wrote = varintBP128EncodeBlock32(dst, in32))) {
                uint8_t *enc = exact_copy(dst, wrote);
                if (LIBCALL("BP128.DecodeBlock32", "block exact-size", rd = varintBP128DecodeBlock32(enc, outb))) {
                    if (rd != wrote || memcmp(outb, v32 + b, 512)) {
                        AFAIL("BP128.DecodeBlock32", "roundtrip_mismatch", "%s: block at %zu consumed %zu/%zu", cur_desc, b, rd, wrote);
                    }
                }
            }
            memcpy(in32, s32 + b, 128 * 4);
            uint32_t prev = b ? s32[b - 1] : 0;
            if (LIBCALL("BP128.DeltaEncodeBlock32", "block", wrote = varintBP128DeltaEncodeBlock32(dst, in32, prev))) {
                uint8_t *enc = exact_copy(dst, wrote);
                if (LIBCALL("BP128.DeltaDecodeBlock32", "block exact-size", rd = varintBP128DeltaDecodeBlock32(enc, outb, prev))) {
                    if (rd != wrote || memcmp(outb, s32 + b, 512)) {
                        AFAIL("BP128.DeltaDecodeBlock32", "roundtrip_mismatch", "%s: delta block at %zu consumed %zu/%zu", cur_desc, b, rd, wrote);
                    }
                }
            }
        }
    }
    free(sorted);
    free(v32);
    free(s32);
}

/* ------------------------------------------------------------------ float (C03 bound, C16 consumed = produced) */
static void codec_float(const uint64_t *vals, size_t n) {
    if (n > 4097) {
        return;
    }
    /* the corpus values reinterpreted as IEEE doubles: NaNs, infinities, subnormals, zeros and normals of
     * every magnitude appear */
    double *in = (double *)in_vals(vals, n);
    static const char *PNAME[4] = {"FULL", "HIGH", "MEDIUM", "LOW"};
    for (int prec = 0; prec < 4; prec++) {
        for (int mode = 0; mode < 3; mode++) {
            size_t bound = varintFloatMaxEncodedSize(n, (varintFloatPrecision)prec);
            uint8_t *dst = enc_dst(bound, 20 * n + 64);
            size_t wrote = 0;
            char what[48];
            snprintf(what, sizeof what, "encode %s mode %d", PNAME[prec], mode);
            if (!LIBCALL("float.Encode", what, wrote = varintFloatEncode(dst, in, n, (varintFloatPrecision)prec, (varintFloatEncodingMode)mode))) {
                continue;
            }
            check_bound("float.Encode", wrote, bound, 0);
            if (wrote == 0) {
                AFAIL("float.Encode", "roundtrip_mismatch", "%s: %s returned 0", cur_desc, what);
                continue;
            }
            if (M16) {
                uint8_t *enc = exact_copy(dst, wrote);
                double *out = (double *)vh_gb_get(G_OUT, n * 8, 0xAB);
                size_t used = 0;
                if (LIBCALL("float.Decode", what, used = varintFloatDecode(enc, n, out))) {
                    if (used != wrote) {
                        AFAIL("float.Decode", "metadata_untrue", "%s: %s: encoder produced %zu bytes, decoder consumed %zu", cur_desc, what, wrote, used);
                    }
                    if (prec == 0 && memcmp(out, vals, n * 8)) {
                        AFAIL("float.Decode", "roundtrip_mismatch", "%s: FULL precision mode %d not bit-exact", cur_desc, mode);
                    }
                }
            }
            char ck[64];
            snprintf(ck, sizeof ck, "float/%s/mode%d", PNAME[prec], mode);
            vh_class(ck, "%s", cur_desc);
        }
    }
}

/* ------------------------------------------------------------------ adaptive */
static const char *ENCNAME[8] = {"DELTA", "FOR", "PFOR", "DICT", "BITMAP", "TAGGED", "GROUP", "?"};

/* decision-tree path signature recomputed from public Analyze output with the documented predicates */
static void path_signature(const varintAdaptiveDataStats *s, char *out, size_t cap) {
    snprintf(out, cap, "n%s/u%s/bm%d/s%d%d/d%s/o%d/r%s", s->count == 1 ? "1" : s->count < 10000 ? "<1e4" : s->count <= 10000 ? "=1e4" : ">1e4",
             s->uniqueRatio < 0.15f ? "lo" : s->uniqueRatio > 0.9f ? "hi" : "mid", s->fitsInBitmapRange, s->isSorted, s->isReverseSorted,
             s->avgDelta < 1000 ? "small" : (s->minValue > 0 && s->avgDelta < s->minValue / 10) ? "rel" : "big", s->outlierRatio < 0.05f && s->range > 0,
             s->range == 0 ? "0" : s->range < s->count * 100 ? "narrow" : "wide");
}

static const char *adaptive_trigger(const uint64_t *v, size_t n, int forced_type, size_t enc_hint) {
    (void)v;
    (void)forced_type;
    (void)n;
    (void)enc_hint;
    return "untagged";
}

static int strictly_increasing_u16(const uint64_t *v, size_t n) {
    for (size_t i = 0; i < n; i++) {
        if (v[i] >= 65536 || (i && v[i] <= v[i - 1])) {
            return 0;
        }
    }
    return 1;
}

static void codec_adaptive(const uint64_t *vals, size_t n, int auto_only) {
    uint64_t *in = in_vals(vals, n);
    size_t bound = varintAdaptiveMaxSize(n);
    varintAdaptiveDataStats st;
    memset(&st, 0, sizeof st);
    if (!LIBCALL("adaptive.Analyze", "analyze", varintAdaptiveAnalyze(in, n, &st))) {
        return;
    }
    char sig[128];
    path_signature(&st, sig, sizeof sig);
    for (int forced = -1; forced <= 5; forced++) {
        if (auto_only && forced >= 0) {
            break;
        }
        if (forced == VARINT_ADAPTIVE_BITMAP && !strictly_increasing_u16(vals, n)) {
            continue; /* outside the documented domain of the set-based encoding */
        }
        if (forced >= 0 && n > 20000) {
            continue;
        }
        const char *eapi = forced < 0 ? "adaptive.Encode" : "adaptive.EncodeWith";
        cur_trigger = adaptive_trigger(vals, n, forced, 0);
        /* only the auto-selecting encoder advertises varintAdaptiveMaxSize */
        size_t fb = 20 * n + 8300;
        uint8_t *dst = (M03 && forced < 0) ? vh_gb_get(G_DST, bound, 0xEE) : vh_gb_get(G_DST, (bound > fb ? bound : fb) + SLACK, 0xEE);
        /* meta is documented as an output: its prior contents must not matter. Two fills are alternated over the
         * corpus: zeroes, and the leftovers of a plausible earlier call on another array of the SAME length (FOR /
         * PFOR sub-metadata naming this count, a different minimum and a 1-byte width) */
        varintAdaptiveMeta em;
        memset(&em, 0, sizeof em);
        /* which fill is used is a function of the case (corpus index, forced type) so that replays are faithful */
        if (((vh_idx + (uint64_t)(forced + 1)) & 1) && (M06 || M16)) {
            memset(&em, 0xEE, sizeof em);
            em.originalCount = n;
            em.encodedSize = 7;
            em.encodingType = VARINT_ADAPTIVE_FOR;
            em.encodingMeta.forMeta.count = n;
            em.encodingMeta.forMeta.minValue = 12345;
            em.encodingMeta.forMeta.maxValue = 12345 + 200;
            em.encodingMeta.forMeta.range = 200;
            em.encodingMeta.forMeta.offsetWidth = VARINT_WIDTH_8B;
            em.encodingMeta.forMeta.encodedSize = 4 + n;
        } else if (((vh_idx >> 1) & 1) && (M06 || M16 || M02) && n > 1) {
            /* third fill: the caller's meta still describes an earlier FOR encode of ANOTHER chunk of the same length
             * whose frame is spanned by this chunk's first and last element (a chunked writer reusing one meta): both
             * ends of the new data lie inside the old frame, interior elements need not */
            uint64_t lo = vals[0] < vals[n - 1] ? vals[0] : vals[n - 1], hi = vals[0] < vals[n - 1] ? vals[n - 1] : vals[0];
            int wb = 1;
            while (wb < 8 && ((hi - lo) >> (8 * wb)) != 0) {
                wb++;
            }
            memset(&em, 0, sizeof em);
            em.originalCount = n;
            em.encodingType = VARINT_ADAPTIVE_FOR;
            em.encodingMeta.forMeta.count = n;
            em.encodingMeta.forMeta.minValue = lo;
            em.encodingMeta.forMeta.maxValue = hi;
            em.encodingMeta.forMeta.range = hi - lo;
            em.encodingMeta.forMeta.offsetWidth = (varintWidth)wb;
            em.encodingMeta.forMeta.encodedSize = 12 + n * (size_t)wb;
            em.encodedSize = 1 + em.encodingMeta.forMeta.encodedSize;
        }
        size_t wrote = 0;
        if (!LIBCALL(eapi, forced < 0 ? "auto" : ENCNAME[forced], wrote = forced < 0 ? varintAdaptiveEncode(dst, in, n, &em) : varintAdaptiveEncodeWith(dst, in, n, (varintAdaptiveEncodingType)forced, &em))) {
            continue;
        }
        if (forced < 0) {
            check_bound(eapi, wrote, bound, 0);
        }
        int type = dst[0];
        if (M06 || M16) {
            if ((int)em.encodingType != type || (forced >= 0 && type != forced) || (int)varintAdaptiveGetEncodingType(dst) != type || em.originalCount != n || em.encodedSize != wrote) {
                AFAIL(eapi, "metadata_untrue", "%s: header byte=%d meta.type=%d forced=%d originalCount=%zu/%zu encodedSize=%zu/%zu", cur_desc, type, (int)em.encodingType, forced, em.originalCount, n, em.encodedSize, wrote);
            }
        }
        if (wrote <= 1 && n > 0) {
            AFAIL(eapi, "roundtrip_mismatch", "%s: %s produced only the header byte", cur_desc, ENCNAME[type & 7]);
            continue;
        }
        uint8_t *enc = exact_copy(dst, wrote);
        if (M16 && type == VARINT_ADAPTIVE_FOR && n > 0) {
            /* the frame the encoder reports for the FOR sub-stream (its metadata output and the stream's own header)
             * is the frame of THIS data: count, minimum and offset width */
            uint64_t tmin = vals[0], tmax = vals[0];
            for (size_t i = 1; i < n; i++) {
                tmin = vals[i] < tmin ? vals[i] : tmin;
                tmax = vals[i] > tmax ? vals[i] : tmax;
            }
            int twb = 1;
            while (twb < 8 && ((tmax - tmin) >> (8 * twb)) != 0) {
                twb++;
            }
            const varintFORMeta *fm = &em.encodingMeta.forMeta;
            if (fm->count != n || fm->minValue != tmin || (int)fm->offsetWidth != twb) {
                AFAIL(eapi, "metadata_untrue", "%s: FOR sub-metadata reports count=%zu min=%" PRIu64 " offsetWidth=%d, the data has count=%zu min=%" PRIu64 " and needs offset width %d", cur_desc, (size_t)fm->count, (uint64_t)fm->minValue,
                      (int)fm->offsetWidth, n, tmin, twb);
            }
            uint64_t hmin = 0;
            int hw = 0;
            if (LIBCALL("FOR.GetMinValue", "adaptive FOR sub-stream", (hmin = varintFORGetMinValue(enc + 1), hw = (int)varintFORGetOffsetWidth(enc + 1), 1))) {
                if (hmin != tmin || hw != twb) {
                    AFAIL(eapi, "metadata_untrue", "%s: header of the FOR sub-stream reports min=%" PRIu64 " offsetWidth=%d, the data has min=%" PRIu64 " and needs offset width %d", cur_desc, hmin, hw, tmin, twb);
                }
            }
        }
        if (M16 && (type == VARINT_ADAPTIVE_FOR || type == VARINT_ADAPTIVE_PFOR)) {
            varintAdaptiveMeta rm;
            memset(&rm, 0, sizeof rm);
            if (LIBCALL("adaptive.ReadMeta", ENCNAME[type], varintAdaptiveReadMeta(enc, &rm))) {
                if ((int)rm.encodingType != type || rm.originalCount != n || rm.encodedSize != wrote) {
                    AFAIL("adaptive.ReadMeta", "metadata_untrue", "%s: %s type=%d count=%zu/%zu encodedSize=%zu/%zu", cur_desc, ENCNAME[type], (int)rm.encodingType, rm.originalCount, n, rm.encodedSize, wrote);
                }
            }
        }
        if (M06 || M02) {
            uint64_t *out = out_buf(n);
            varintAdaptiveMeta dm;
            memset(&dm, 0, sizeof dm);
            size_t r = 0, at = 0;
            if (LIBCALL("adaptive.Decode", ENCNAME[type & 7], r = varintAdaptiveDecode(enc, out, n, &dm))) {
                if (r != n || cmp_u64(out, vals, n, &at)) {
                    AFAIL("adaptive.Decode", "roundtrip_mismatch", "%s: %s%s returned %zu (n=%zu), element %zu = %" PRIu64 " want %" PRIu64 " [path %s]", cur_desc, forced < 0 ? "auto->" : "forced ", ENCNAME[type & 7], r, n, at,
                          at < n ? out[at] : 0, at < n ? vals[at] : 0, sig);
                }
                if ((int)dm.encodingType != type) {
                    AFAIL("adaptive.Decode", "metadata_untrue", "%s: decode meta type %d header %d", cur_desc, (int)dm.encodingType, type);
                }
            }
            /* the decoder's meta argument is an output too: decode again with it holding (a) the metadata of ANOTHER
             * stream of the same encoding and count (this stream's own metadata with the frame minimum, widths and
             * exception counts of a different data set) and (b) a byte pattern */
            for (int stale = 1; stale <= 2 && (M06 || M16); stale++) {
                varintAdaptiveMeta sm = em;
                if (stale == 1) {
                    sm.encodingType = (varintAdaptiveEncodingType)type;
                    sm.originalCount = n;
                    sm.encodingMeta.forMeta.minValue += 1000;
                    sm.encodingMeta.forMeta.count = n;
                    sm.encodingMeta.pforMeta.min += 1000;
                    sm.encodingMeta.pforMeta.count = (uint32_t)n;
                    if (sm.encodingMeta.pforMeta.width == 0) {
                        sm.encodingMeta.pforMeta.width = VARINT_WIDTH_8B;
                    }
                    sm.encodingMeta.pforMeta.exceptionCount += 1;
                } else {
                    memset(&sm, 0xEE, sizeof sm);
                }
                out = out_buf(n);
                r = 0;
                if (LIBCALL("adaptive.Decode", stale == 1 ? "meta of another stream" : "meta filled with ee", r = varintAdaptiveDecode(enc, out, n, &sm))) {
                    if (r != n || cmp_u64(out, vals, n, &at) || (int)sm.encodingType != type) {
                        AFAIL("adaptive.Decode", "roundtrip_mismatch", "%s: %s%s with a meta argument holding %s returned %zu (n=%zu), element %zu = %" PRIu64 " want %" PRIu64, cur_desc, forced < 0 ? "auto->" : "forced ", ENCNAME[type & 7],
                              stale == 1 ? "the metadata of another stream of the same encoding and count" : "the byte ee", r, n, at, at < n ? out[at] : 0, at < n ? vals[at] : 0);
                    }
                }
            }
        }
        if (M13) {
            char dapi[48];
            snprintf(dapi, sizeof dapi, "adaptive.Decode[%s]", ENCNAME[type & 7]);
            CAP_SWEEP(dapi, n, vals, varintAdaptiveDecode(enc, out, c, NULL));
        }
        char ck[200];
        snprintf(ck, sizeof ck, "adaptive/%s%s/%s", forced < 0 ? "auto->" : "forced-", ENCNAME[type & 7], forced < 0 ? sig : "");
        vh_class(ck, "%s", cur_desc);
        cur_trigger = "untagged";
    }
}

/* synthetic sweep of the selection function: which leaves are reachable for which predicate combos */
static void adaptive_select_sweep(void) {
    if (!vh_section_begin("adaptive/select_sweep")) {
        return;
    }
    static const size_t counts[] = {0, 1, 2, 50, 9999, 10000, 10001, 100000};
    static const float ratios[] = {0.0f, 0.1f, 0.149f, 0.15f, 0.5f, 0.9f, 0.91f, 1.0f};
    static const uint64_t ranges[] = {0, 1, 100, 4999, 5000, 65535, 1000000, UINT64_MAX};
    static const uint64_t deltas[] = {0, 1, 999, 1000, 1000000};
    static const float outl[] = {0.0f, 0.049f, 0.05f, 0.5f};
    for (size_t a = 0; a < 8; a++) {
        for (size_t b = 0; b < 8; b++) {
            for (size_t c = 0; c < 8; c++) {
                for (size_t d = 0; d < 5; d++) {
                    for (size_t e = 0; e < 4; e++) {
                        for (int srt = 0; srt < 3; srt++) {
                            for (int bm = 0; bm < 2; bm++) {
                                if (!vh_case()) {
                                    continue;
                                }
                                varintAdaptiveDataStats s;
                                memset(&s, 0, sizeof s);
                                s.count = counts[a];
                                s.uniqueRatio = ratios[b];
                                s.uniqueCount = (size_t)(ratios[b] * (float)counts[a]);
                                s.range = ranges[c];
                                s.minValue = 5000;
                                s.maxValue = s.minValue + s.range;
                                s.avgDelta = deltas[d];
                                s.maxDelta = deltas[d];
                                s.outlierRatio = outl[e];
                                s.isSorted = srt == 1;
                                s.isReverseSorted = srt == 2;
                                s.fitsInBitmapRange = bm;
                                int t = -1;
                                if (LIBCALL("adaptive.SelectEncoding", "synthetic stats", t = (int)varintAdaptiveSelectEncoding(&s))) {
                                    if (t < 0 || t > 5) {
                                        AFAIL("adaptive.SelectEncoding", "metadata_untrue", "selected type %d out of range", t);
                                    } else {
                                        char ck[64];
                                        snprintf(ck, sizeof ck, "select/leaf-%s/sorted%d/bm%d", ENCNAME[t], srt, bm);
                                        vh_class(ck, "count=%zu ratio=%.3f range=%" PRIu64 " avgDelta=%" PRIu64 " outl=%.3f", s.count, s.uniqueRatio, s.range, s.avgDelta, s.outlierRatio);
                                    }
                                }
                                vh_count("cases", 1);
                            }
                        }
                    }
                }
            }
        }
    }
}

/* adaptive round trip of a low-cardinality array whose encoding exceeds 2^20 bytes (plain heap buffers: the guard
 * slots are sized for the corpus) */
static void huge_adaptive(void) {
    if (!vh_section_begin("adaptive/huge")) {
        return;
    }
    if (!vh_case()) {
        return;
    }
    const size_t n = 1200000;
    uint64_t *v = malloc(n * 8), *out = malloc(n * 8);
    uint8_t *enc = malloc(varintAdaptiveMaxSize(n) + 64);
    for (size_t i = 0; i < n; i++) {
        v[i] = (i % 3) * 1000;
    }
    cur_desc = "n=1200000 over 3 distinct values (encoding > 2^20 bytes)";
    /* trigger is a function of the input only: long low-cardinality array */
    cur_trigger = "low_cardinality_encoding_over_1MiB";
    varintAdaptiveMeta m;
    memset(&m, 0, sizeof m);
    size_t wrote = 0, r = 0;
    if (LIBCALL("adaptive.Encode", "huge", wrote = varintAdaptiveEncode(enc, v, n, &m))) {
        if (wrote > varintAdaptiveMaxSize(n)) {
            AFAIL("adaptive.Encode", "size_underestimate", "%s: wrote %zu > bound %zu", cur_desc, wrote, varintAdaptiveMaxSize(n));
        }
        memset(out, 0xAB, n * 8);
        if (LIBCALL("adaptive.Decode", "huge", r = varintAdaptiveDecode(enc, out, n, NULL))) {
            size_t at = 0;
            if (r != n || cmp_u64(out, v, n, &at)) {
                AFAIL("adaptive.Decode", "roundtrip_mismatch", "%s: auto->%s wrote %zu bytes, decode returned %zu of %zu values", cur_desc, ENCNAME[enc[0] & 7], wrote, r, n);
            }
        }
        char ck[64];
        snprintf(ck, sizeof ck, "adaptive/huge/auto->%s", ENCNAME[enc[0] & 7]);
        vh_class(ck, "%s: %zu bytes", cur_desc, wrote);
    }
    cur_trigger = "untagged";
    vh_count("cases", 1);
    vh_count("elements", n);
    free(v);
    free(out);
    free(enc);
}

/* ------------------------------------------------------------------ driver */
static int u64cmp_corpus(const void *a, const void *b);
static int u32cmp_corpus(const void *a, const void *b);

static void run_array(const uint64_t *v, size_t n) {
    if (M06) {
        if (n <= 3100000) {
            codec_adaptive(v, n, 0);
        }
        return;
    }
    codec_delta(v, n);
    codec_for(v, n);
    codec_pfor(v, n);
    codec_group(v, n);
    codec_dict(v, n);
    codec_rle(v, n);
    codec_elias(v, n);
    codec_bp128(v, n);
    /* the adaptive analysis sorts a 10% sample with an exchange sort (quadratic): beyond about three million elements
     * a single call takes minutes to hours, which is a cost of the library, not a hang; the 16.7-million-element
     * arrays therefore skip the adaptive codec */
    if ((M03 || M13 || M16) && n <= 3100000) {
        codec_adaptive(v, n, M03);
    }
    if (M03 || M16) {
        codec_float(v, n);
    }
}

/* ------------------------------------------------------------------ giant arrays
 * Element counts above 2^20 (the dictionary decoders' entry cap, sampling paths for very long inputs) and around 2^24
 * (a count / run length whose tagged form grows to 5 bytes).  The guard buffers are re-mapped at the size each array
 * needs; everything else is the ordinary per-array pipeline. */
static void giant_resize(size_t n) {
    size_t want[5] = {20 * n + (1 << 16), 20 * n + (1 << 16), 8 * n + 4096, 8 * n + 4096, 1 << 16};
    for (int sl = 0; sl < 5; sl++) {
        if (vh_gb[sl].cap < want[sl] + VH_CANARY) {
            munmap(vh_gb[sl].lead, vh_gb[sl].maplen);
            vh_gb_init(sl, want[sl]);
        }
    }
}
static size_t giant_fill(int kind, uint64_t *v, char *desc, size_t cap) {
    size_t n = 0;
    switch (kind) {
    case 0: /* clustered values with spikes; the single minimum sits at an odd index */
        n = 1048577;
        for (size_t i = 0; i < n; i++) {
            v[i] = 1000 + (i * 37) % 100 + (i % 1000 == 999 ? 1000000 : 0);
        }
        v[777777] = 3;
        snprintf(desc, cap, "n=%zu clustered 1000..1099 with a spike every 1000th, single minimum 3 at index 777777", n);
        break;
    case 1: /* one more distinct value than a dictionary decoder accepts */
        n = 1048577;
        for (size_t i = 0; i < n; i++) {
            v[i] = i * 3 + 1;
        }
        snprintf(desc, cap, "n=%zu distinct ascending values (i*3+1)", n);
        break;
    case 2: /* what a stride-10 sample sees is constant, but almost every value is distinct */
        n = 3000000;
        for (size_t i = 0; i < n; i++) {
            v[i] = i % 10 == 0 ? 7 : 100 + i;
        }
        snprintf(desc, cap, "n=%zu, every 10th element 7, the others 100+i", n);
        break;
    case 3:
    case 4:
    case 5: /* one run whose length crosses the 4-to-5-byte boundary of a tagged count */
        n = 16777215 + (size_t)(kind - 3);
        for (size_t i = 0; i < n; i++) {
            v[i] = 300;
        }
        snprintf(desc, cap, "n=%zu equal values (300)", n);
        break;
    case 6: /* ascending by 1 at the same boundary */
        n = 16777216;
        for (size_t i = 0; i < n; i++) {
            v[i] = 5 + i;
        }
        snprintf(desc, cap, "n=%zu ascending by 1 from 5", n);
        break;
    case 7: /* exactly the dictionary cap */
        n = 1048576;
        for (size_t i = 0; i < n; i++) {
            v[i] = ((i * 2654435761ULL) % n) * 3 + 1; /* a permutation when n is a power of two and the multiplier odd */
        }
        snprintf(desc, cap, "n=%zu distinct scattered values", n);
        break;
    }
    return n;
}
static void run_giant(void) {
    if (M13 || !vh_section_begin("giant")) {
        return;
    }
    /* the two arrays just above 2^20 everywhere; all eight where VERIF_GIANT is set (thorough tier, optimised builds) */
    static const int QUICK[2] = {0, 1};
    int all = vh_thorough && getenv("VERIF_GIANT") != NULL;
    int nk = all ? 8 : 2;
    for (int k = 0; k < nk; k++) {
        if (!vh_case()) {
            continue;
        }
        int kind = all ? k : QUICK[k];
        static char gdesc[200];
        uint64_t *v = malloc(8 * (size_t)16777300);
        size_t n = giant_fill(kind, v, gdesc, sizeof gdesc);
        giant_resize(n);
        cur_desc = gdesc;
        g_in_shift = 0;
        run_array(v, n);
        free(v);
        vh_count("cases", 1);
        vh_count("elements", n);
        vh_count("arrays_giant", 1);
    }
}

/* ------------------------------------------------------------------ inputs derived from the library's own constants
 * The driver lists the 64-bit immediates of the library's machine code (hash multipliers, division magic numbers,
 * masks). For every odd constant K the convergents p/q of K / 2^64 give the differences d = q for which d*K is closest
 * to a multiple of 2^64 - the value pairs (x, x + d) that a multiplicative hash by K cannot tell apart in its top bits,
 * or that straddle a step of a multiply-high division. Arrays built from such pairs (and triples) in several layouts go
 * through every codec. */
static void run_constant_derived(void) {
    if (M13 || !vh_section_begin("constant-derived")) {
        return;
    }
    char path[600];
    ssize_t pl = readlink("/proc/self/exe", path, sizeof path - 32);
    if (pl <= 0) {
        return;
    }
    path[pl] = 0;
    char *slash = strrchr(path, '/');
    if (!slash) {
        return;
    }
    strcpy(slash + 1, "lib_constants.txt");
    FILE *f = fopen(path, "r");
    if (!f) {
        vh_flag("library_constants_listed", 0);
        return;
    }
    vh_flag("library_constants_listed", 1);
    uint64_t K[64];
    int nk = 0;
    unsigned long long kk;
    while (nk < 64 && fscanf(f, "%llx", &kk) == 1) {
        if (kk & 1) {
            K[nk++] = (uint64_t)kk;
        }
    }
    fclose(f);
    vh_infostr("library_constants_odd", "%d", nk);
    static uint64_t arr[320];
    static char cdesc[200];
    static const uint64_t XS[3] = {1000, 0x3c3894ad70ad8441ULL, (1ULL << 33) + 5};
    for (int ki = 0; ki < nk; ki++) {
        /* continued fraction of K / 2^64 */
        __uint128_t num = K[ki], den = (__uint128_t)1 << 64;
        uint64_t q0 = 0, q1 = 1; /* denominators of the convergents */
        for (int it = 0; it < 80 && num != 0; it++) {
            __uint128_t a = den / num, r = den % num;
            __uint128_t q2 = a * q1 + q0;
            if (q2 >> 64) {
                break;
            }
            q0 = q1;
            q1 = (uint64_t)q2;
            den = num;
            num = r;
            if (q1 < 2) {
                continue;
            }
            for (int mult = 1; mult <= 3; mult++) {
                for (int xi = 0; xi < 3; xi++) {
                    for (int layout = 0; layout < 4; layout++) {
                        if (!vh_case()) {
                            continue;
                        }
                        uint64_t d = q1 * (uint64_t)mult, A = XS[xi], B = A + d, C = A + 2 * d;
                        size_t n;
                        if (layout == 0) {
                            arr[0] = A;
                            arr[1] = B;
                            n = 2;
                        } else if (layout == 1) {
                            arr[0] = B;
                            arr[1] = A;
                            arr[2] = B;
                            n = 3;
                        } else if (layout == 2) {
                            n = 64;
                            for (size_t i = 0; i < n; i++) {
                                arr[i] = (i & 1) ? B : A;
                            }
                        } else {
                            n = 300;
                            for (size_t i = 0; i < n; i++) {
                                arr[i] = i % 3 == 0 ? A : i % 3 == 1 ? B : C;
                            }
                            arr[127] = C;
                            arr[128] = B;
                        }
                        snprintf(cdesc, sizeof cdesc, "n=%zu over {x, x+d, x+2d}: x=%" PRIu64 " d=%" PRIu64 " (%d x a convergent denominator of 0x%" PRIx64 " / 2^64), layout %d", n, A, d, mult, K[ki], layout);
                        cur_desc = cdesc;
                        g_in_shift = 0;
                        run_array(arr, n);
                        vh_count("cases", 1);
                        vh_count("arrays_constant_derived", 1);
                    }
                }
            }
        }
    }
}

int main(int argc, char **argv) {
    vh_init(argc, argv);
    for (int i = 1; i < argc; i++) {
        if (!strcmp(argv[i], "--prop") && i + 1 < argc) {
            PROP = argv[i + 1];
        }
    }
    M02 = !strcmp(PROP, "C02");
    M03 = !strcmp(PROP, "C03");
    M13 = !strcmp(PROP, "C13");
    M16 = !strcmp(PROP, "C16");
    M06 = !strcmp(PROP, "C06");
    if (!(M02 || M03 || M13 || M16 || M06)) {
        fprintf(stderr, "unknown --prop %s\n", PROP);
        return 3;
    }
    vh_sandbox_init();
    vh_watchdog(300); /* a library call that makes no progress for a whole period is reported as a hang (the longest legitimate call, the adaptive analysis of 3,000,000 values, takes about 30 s) */
    size_t maxn = M13 ? (vh_thorough ? 4097 : 1300) : CORPUS_MAXN;
    const char *e = getenv("VERIF_MAXN");
    if (e) {
        maxn = (size_t)atol(e);
    }
    vh_gb_init(G_DST, 20 * CORPUS_MAXN + (1 << 16));
    vh_gb_init(G_ENC, 20 * CORPUS_MAXN + (1 << 16));
    vh_gb_init(G_OUT, 8 * CORPUS_MAXN + 4096);
    vh_gb_init(G_IN, 8 * CORPUS_MAXN + 4096);
    vh_gb_init(G_AUX, 1 << 16);
    vm_init((size_t)512 << 20);
    vh_infostr("max_array_length", "%zu", maxn);

    corpus_iter it;
    corpus_begin(&it, vh_thorough, maxn);
    int complete = 1;
    if (vh_section_begin("corpus")) {
        uint64_t *copy = malloc(8 * CORPUS_MAXN);
        while (corpus_next(&it)) {
            if (!vh_case()) {
                continue;
            }
            if (vh_deadline_now()) {
                complete = 0;
                break;
            }
            static const size_t SHIFTS[3] = {0, 1, 3};
            int npass = M13 || it.n > (vh_thorough ? 4097 : 600) ? 1 : (vh_thorough ? 3 : 2);
            for (int pass = 0; pass < npass; pass++) {
                char dsc[260];
                g_in_shift = SHIFTS[pass];
                memcpy(copy, it.v, it.n * 8);
                if (pass) {
                    snprintf(dsc, sizeof dsc, "%s [input start %zu element(s) before the flush position]", it.desc, g_in_shift);
                }
                cur_desc = pass ? dsc : it.desc;
                run_array(copy, it.n);
                vh_count("input_placements", 1);
            }
            g_in_shift = 0;
            vh_count("cases", 1);
            vh_count("elements", it.n);
            char fk[40];
            snprintf(fk, sizeof fk, "arrays_%s", it.family);
            vh_count(fk, 1);
        }
        free(copy);
        vh_flag("corpus_complete", complete);
    }
    corpus_end(&it);
    run_constant_derived();
    run_giant();
    if (M06) {
        adaptive_select_sweep();
        if (vh_thorough) {
            huge_adaptive();
        }
    }
    vh_write_out();
    return 0;
}

static int u64cmp_corpus(const void *a, const void *b) {
    uint64_t x = *(const uint64_t *)a, y = *(const uint64_t *)b;
    return (x > y) - (x < y);
}
static int u32cmp_corpus(const void *a, const void *b) {
    uint32_t x = *(const uint32_t *)a, y = *(const uint32_t *)b;
    return (x > y) - (x < y);
}
