/* floatc.c - C07: float codec. FULL bit-exact; reduced precisions within 2^-m relative error, checked
 * exactly in integer arithmetic on the decomposed fields; EncodeAuto error <= requested error.
 * E-enum over a double alphabet (every special class, subnormals, mantissas that carry on rounding at
 * each precision, exponents over the whole range) as singletons, all ordered pairs over a sub-alphabet
 * (every exponent-distance class incl. > 255 and > 2047) and all triples over a smaller one,
 * x 4 precisions x 3 exponent modes. */
#include "vh.h"
#include <fenv.h>
#include "vmalloc.h"

#include "varint.h"
#include "varintFloat.h"

typedef unsigned __int128 u128;

static inline uint64_t d2u(double d) {
    uint64_t u;
    memcpy(&u, &d, 8);
    return u;
}
static inline double u2d(uint64_t u) {
    double d;
    memcpy(&d, &u, 8);
    return d;
}
static double mk(int sign, int bexp, uint64_t mant) { return u2d(((uint64_t)sign << 63) | ((uint64_t)bexp << 52) | (mant & 0xFFFFFFFFFFFFFULL)); }

static const int MB[4] = {52, 23, 10, 4};
static const char *PN[4] = {"FULL", "HIGH", "MEDIUM", "LOW"};
static const char *MN[3] = {"INDEPENDENT", "COMMON_EXPONENT", "DELTA_EXPONENT"};

/* ---------------------------------------------------------------- alphabets */
static double *DA;
static size_t nDA;
static void push(double d) {
    static size_t cap = 0;
    if (nDA == cap) {
        cap = cap ? cap * 2 : 4096;
        DA = realloc(DA, cap * sizeof(double));
    }
    DA[nDA++] = d;
}

static const int BEXP[] = {0, 1, 2, 3, 127, 128, 254, 255, 256, 767, 768, 1022, 1023, 1024, 1278, 1279, 1280, 2045, 2046, 2047};
#define NBEXP (sizeof BEXP / sizeof *BEXP)

static void build_mantissas(uint64_t *ms, size_t *n) {
    size_t k = 0;
    const uint64_t ALL = 0xFFFFFFFFFFFFFULL;
    ms[k++] = 0;
    ms[k++] = 1;
    ms[k++] = 2;
    ms[k++] = ALL;
    ms[k++] = ALL - 1;
    ms[k++] = 0x5555555555555ULL;
    ms[k++] = 0xAAAAAAAAAAAAAULL;
    for (int t = 1; t <= 52; t++) {
        uint64_t top = ALL & ~((1ULL << (52 - t)) - 1); /* top t ones */
        ms[k++] = top;
        if (t < 51) {
            ms[k++] = top | ((1ULL << (52 - t - 1)) - 1); /* top t ones, a zero, then ones */
        }
    }
    /* half-way patterns around the rounding position of each reduced precision:
     * stored mantissa has m bits including the hidden one, so the cut is at bit s = 53 - m */
    for (int pi = 1; pi < 4; pi++) {
        int s = 53 - MB[pi];
        static const uint64_t X[] = {0, 1, 2, 3, 0x2aa, 0x3ff, 0x7ffff, 0x3fffff};
        for (size_t xi = 0; xi < sizeof X / sizeof *X; xi++) {
            uint64_t base = (X[xi] << s) & ALL;
            uint64_t half = 1ULL << (s - 1);
            ms[k++] = (base + half) & ALL;
            ms[k++] = (base + half - 1) & ALL;
            ms[k++] = (base + half + 1) & ALL;
            ms[k++] = base;
        }
        /* all ones above the cut: rounding carries out of the mantissa */
        ms[k++] = (ALL & ~((1ULL << s) - 1)) | (1ULL << (s - 1));
        ms[k++] = (ALL & ~((1ULL << s) - 1)) | ((1ULL << (s - 1)) - 1);
    }
    *n = k;
}

static void build_alphabet(void) {
    uint64_t ms[400];
    size_t nm;
    build_mantissas(ms, &nm);
    for (int sign = 0; sign < 2; sign++) {
        for (size_t e = 0; e < NBEXP; e++) {
            for (size_t m = 0; m < nm; m++) {
                push(mk(sign, BEXP[e], ms[m]));
            }
        }
    }
    if (vh_thorough) {
        /* every biased exponent 0..2047 x the rounding-sensitive mantissas of each precision */
        for (int e = 0; e < 2048; e++) {
            for (size_t m = 0; m < nm; m += 3) {
                push(mk(e & 1, e, ms[m]));
            }
        }
    }
    static const double nice[] = {1.9999999999, 123.456, 25.34, 0.1, 1e-300, 1e300, 1e-308, 1.7976931348623157e308, 3.141592653589793, -2.718281828459045, 65504.0, 1e-5};
    for (size_t i = 0; i < sizeof nice / sizeof *nice; i++) {
        push(nice[i]);
    }
}

/* sub-alphabets for pairs / triples: chosen by index stride so that every exponent class appears */
static size_t subset(double *out, size_t want) {
    size_t k = 0;
    /* one of each (sign, exponent) with two mantissas + specials */
    uint64_t ms2[4] = {0, 0xFFFFFFFFFFFFFULL, 0x8000000000000ULL, 0xFFFFFE0000000ULL | 0x10000000ULL};
    for (size_t e = 0; e < NBEXP && k < want; e++) {
        for (int mi = 0; mi < 4 && k < want; mi++) {
            out[k++] = mk((int)((e + (size_t)mi) & 1), BEXP[e], ms2[mi]);
            if (want < 40 && mi >= 0) {
                break;
            }
        }
    }
    static const double extra[] = {0.0, -0.0, 1.0 / 0.0, -1.0 / 0.0, 1.9999999999, 1e-300, 1e300, 123.456, 5e-324, 2.2250738585072014e-308};
    for (size_t i = 0; i < sizeof extra / sizeof *extra && k < want + 10; i++) {
        out[k++] = extra[i];
    }
    out[k++] = u2d(0x7ff8000000000001ULL); /* quiet NaN with payload */
    out[k++] = u2d(0xfff0000000000123ULL); /* signalling NaN pattern, negative */
    return k;
}

/* ---------------------------------------------------------------- oracle */
static char desc[512];

/* exact check |dec - x| <= 2^-m |x| (or <= r |x| when rM != 0) for a normal x */
static int within(double x, double dec, int m, uint64_t rM, int rE, char *why, size_t wcap) {
    uint64_t ux = d2u(x), ud = d2u(dec);
    int ex = (int)((ux >> 52) & 0x7ff), ed = (int)((ud >> 52) & 0x7ff);
    uint64_t Mx = (ux & 0xFFFFFFFFFFFFFULL) | (1ULL << 52);
    uint64_t Md = (ud & 0xFFFFFFFFFFFFFULL) | (1ULL << 52);
    if ((ux >> 63) != (ud >> 63)) {
        snprintf(why, wcap, "sign flipped");
        return 0;
    }
    if (ed == 0x7ff) {
        /* infinity is tolerated only when x rounds above DBL_MAX at this precision */
        if ((ud & 0xFFFFFFFFFFFFFULL) == 0 && ex == 2046 && m < 52) {
            int s = 53 - m;
            if (Mx + (1ULL << (s - 1)) >= (1ULL << 53)) {
                return 1;
            }
        }
        snprintf(why, wcap, "decoded to a non-finite value");
        return 0;
    }
    if (ed == 0) {
        snprintf(why, wcap, "decoded to zero or a subnormal");
        return 0;
    }
    u128 D;
    if (ed == ex) {
        D = Md > Mx ? (u128)(Md - Mx) : (u128)(Mx - Md);
    } else if (ed == ex + 1) {
        D = (u128)2 * Md - Mx;
    } else if (ed + 1 == ex) {
        D = (u128)2 * Mx - Md; /* in units of half an ulp of x: compare doubled */
        /* |dec - x| = (2Mx - Md) * 2^(ed-52); bound = 2^-m * Mx * 2^(ex-52) = 2^-m * 2Mx * 2^(ed-52) */
        if (rM == 0) {
            if ((D << m) <= (u128)2 * Mx) {
                return 1;
            }
        }
        snprintf(why, wcap, "exponent dropped by one (2^%d vs 2^%d)", ed - 1023, ex - 1023);
        return 0;
    } else {
        snprintf(why, wcap, "exponent 2^%d became 2^%d", ex - 1023, ed - 1023);
        return 0;
    }
    if (rM == 0) {
        if ((D << m) <= (u128)Mx) {
            return 1;
        }
        snprintf(why, wcap, "|dec-x| = %" PRIu64 " ulp(x) exceeds 2^-%d |x| = %.3f ulp", (uint64_t)D, m, (double)Mx / (double)(1ULL << m));
        return 0;
    }
    /* requested error r = rM * 2^(rE-52): D <= r * Mx  <=>  D <= floor(rM * Mx / 2^(52-rE)) */
    int sh = 52 - rE;
    u128 prod = (u128)rM * Mx;
    u128 lim = sh >= 128 ? 0 : sh <= 0 ? prod : (prod >> sh);
    if (D <= lim) {
        return 1;
    }
    snprintf(why, wcap, "|dec-x| = %" PRIu64 " ulp(x) exceeds the requested relative error (%" PRIu64 " ulp allowed)", (uint64_t)D, (uint64_t)lim);
    return 0;
}

static int is_normal_d(double x) {
    int e = (int)((d2u(x) >> 52) & 0x7ff);
    return e != 0 && e != 0x7ff;
}

static vm_report vmr;
static const char *trig = "untagged";

/* returns selected precision index (for auto) or pi */
/* the floating-point environment is per-thread hidden state: the library calls of a case run under g_round, the oracle
 * in round-to-nearest; the bytes and the decoded values must not depend on it */
static int g_round = FE_TONEAREST;
static const char *round_name(void) { return g_round == FE_TONEAREST ? "to-nearest" : g_round == FE_DOWNWARD ? "downward" : g_round == FE_UPWARD ? "upward" : "toward-zero"; }
static void run_case(const double *vals, size_t n, int pi, int mode, double req_err) {
    int is_auto = req_err > 0;
    size_t bound = varintFloatMaxEncodedSize(n, VARINT_FLOAT_PRECISION_FULL);
    uint8_t *dst = vh_gb_get(0, bound + 64, 0xEE);
    double *in = (double *)vh_gb_get(3, n * 8, -1);
    memcpy(in, vals, n * 8);
    size_t wrote = 0;
    varintFloatPrecision sel = (varintFloatPrecision)pi;
    const char *eapi = is_auto ? "float.EncodeAuto" : "float.Encode";
    vm_begin_case(NULL);
    if (SB_ENTER()) {
        fesetround(g_round);
        wrote = is_auto ? varintFloatEncodeAuto(dst, in, n, req_err, (varintFloatEncodingMode)mode, &sel) : varintFloatEncode(dst, in, n, (varintFloatPrecision)pi, (varintFloatEncodingMode)mode);
        fesetround(FE_TONEAREST);
        SB_LEAVE();
        vm_end_case(&vmr);
    } else {
        fesetround(FE_TONEAREST);
        vm_end_case(&vmr);
        vh_fail(eapi, vh_fault_name(), trig, "%s: %s", desc, vh_fault_msg);
        return;
    }
    vh_count("calls", 1);
    int spi = (int)sel;
    if (spi < 0 || spi > 3) {
        vh_fail(eapi, "wrong_precision_selected", trig, "%s: selected precision %d", desc, spi);
        return;
    }
    size_t pbound = varintFloatMaxEncodedSize(n, sel);
    if (wrote == 0 || wrote > pbound) {
        vh_fail(eapi, "size_underestimate", trig, "%s: wrote %zu bytes, varintFloatMaxEncodedSize = %zu", desc, wrote, pbound);
        if (wrote == 0) {
            return;
        }
    }
    /* decode from an exact-size copy into an exact-size output */
    uint8_t *enc = vh_gb_get(1, wrote, -1);
    memcpy(enc, dst, wrote);
    double *out = (double *)vh_gb_get(2, n * 8, 0xAB);
    size_t used = 0;
    vm_begin_case(NULL);
    if (SB_ENTER()) {
        fesetround(g_round);
        used = varintFloatDecode(enc, n, out);
        fesetround(FE_TONEAREST);
        SB_LEAVE();
        vm_end_case(&vmr);
    } else {
        fesetround(FE_TONEAREST);
        vm_end_case(&vmr);
        vh_fail("float.Decode", vh_fault_kind == 1 ? (vh_fault_slot == 1 ? "read_past_input" : "write_past_capacity") : vh_fault_name(), trig, "%s (%s): %s", desc, PN[spi], vh_fault_msg);
        return;
    }
    vh_count("calls", 1);
    if (used != wrote) {
        vh_fail("float.Decode", "length_disagreement", trig, "%s (%s): encoder wrote %zu, decoder consumed %zu", desc, PN[spi], wrote, used);
    }
    int m = MB[spi];
    uint64_t rM = 0;
    int rE = 0;
    if (is_auto) {
        uint64_t ur = d2u(req_err);
        rM = (ur & 0xFFFFFFFFFFFFFULL) | (1ULL << 52);
        rE = (int)((ur >> 52) & 0x7ff) - 1023;
    }
    for (size_t i = 0; i < n; i++) {
        char why[200] = "";
        if (!is_normal_d(vals[i]) || spi == 0) {
            if (d2u(out[i]) != d2u(vals[i])) {
                vh_fail("float.Decode", spi == 0 ? "full_precision_not_bit_exact" : "special_value_not_exact", trig, "%s (%s): element %zu 0x%016" PRIx64 " (%g) decoded 0x%016" PRIx64 " (%g)", desc, PN[spi], i, d2u(vals[i]), vals[i], d2u(out[i]), out[i]);
            }
            continue;
        }
        if (!within(vals[i], out[i], m, 0, 0, why, sizeof why)) {
            vh_fail("float.Decode", "error_exceeds_published_bound", trig, "%s (%s): element %zu %.17g decoded %.17g: %s", desc, PN[spi], i, vals[i], out[i], why);
        } else if (is_auto && !within(vals[i], out[i], m, rM, rE, why, sizeof why)) {
            vh_fail("float.EncodeAuto", "error_exceeds_requested", trig, "%s (selected %s): element %zu %.17g decoded %.17g: %s", desc, PN[spi], i, vals[i], out[i], why);
        }
    }
    vh_count("cases", 1);
}

static int exp_class(double a, double b) {
    if (!is_normal_d(a) || !is_normal_d(b)) {
        return 9;
    }
    int ea = (int)((d2u(a) >> 52) & 0x7ff), eb = (int)((d2u(b) >> 52) & 0x7ff);
    int d = ea > eb ? ea - eb : eb - ea;
    return d == 0 ? 0 : d < 128 ? 1 : d <= 255 ? 2 : d < 2047 ? 3 : 4;
}

int main(int argc, char **argv) {
    vh_init(argc, argv);
    vh_sandbox_init();
    vh_watchdog(60); /* a library call that makes no progress for a whole period is reported as a hang */
    vh_gb_init(0, 70000 * 26 + 4096);
    vh_gb_init(1, 70000 * 26 + 4096);
    vh_gb_init(2, 70000 * 8 + 4096);
    vh_gb_init(3, 70000 * 8 + 4096);
    vm_init((size_t)64 << 20);
    build_alphabet();
    vh_infostr("double_alphabet", "%zu", nDA);
    static double S2[260], S3[96];
    size_t n2 = subset(S2, vh_thorough ? 190 : 110), n3 = subset(S3, vh_thorough ? 30 : 18);
    vh_infostr("pair_alphabet", "%zu", n2);
    vh_infostr("triple_alphabet", "%zu", n3);

    if (vh_section_begin("singletons")) {
        for (size_t i = 0; i < nDA; i++) {
            if (!vh_case()) {
                continue;
            }
            {
                /* the decomposition helpers: normal values recompose bit for bit; special values are reported as such */
                uint64_t sg = 0, mt = 0;
                int16_t ex = 0;
                bool nrm = varintFloatDecompose(DA[i], &sg, &ex, &mt);
                if (nrm != (bool)is_normal_d(DA[i]) || (bool)varintFloatIsSpecial(DA[i]) == nrm) {
                    vh_fail("float.Decompose", "wrong_classification", "untagged", "%.17g (0x%016" PRIx64 "): Decompose says %s, IsSpecial %d", DA[i], d2u(DA[i]), nrm ? "normal" : "special", (int)varintFloatIsSpecial(DA[i]));
                } else if (nrm && d2u(varintFloatCompose(sg, ex, mt)) != d2u(DA[i])) {
                    vh_fail("float.Compose", "full_precision_not_bit_exact", "untagged", "%.17g: Compose(Decompose(x)) = %.17g", DA[i], varintFloatCompose(sg, ex, mt));
                }
                vh_count("calls", 3);
            }
            for (int pi = 0; pi < 4; pi++) {
                for (int mode = 0; mode < 3; mode++) {
                    snprintf(desc, sizeof desc, "{%.17g (0x%016" PRIx64 ")} precision %s mode %s", DA[i], d2u(DA[i]), PN[pi], MN[mode]);
                    run_case(&DA[i], 1, pi, mode, 0);
                }
            }
            int e = (int)((d2u(DA[i]) >> 52) & 0x7ff);
            char ck[48];
            snprintf(ck, sizeof ck, "single/bexp%d/%s", e, (d2u(DA[i]) >> 63) ? "neg" : "pos");
            vh_class(ck, "%.17g", DA[i]);
        }
    }
    if (vh_section_begin("pairs")) {
        for (size_t a = 0; a < n2; a++) {
            for (size_t b = 0; b < n2; b++) {
                if (!vh_case()) {
                    continue;
                }
                double v[2] = {S2[a], S2[b]};
                for (int pi = 0; pi < 4; pi++) {
                    for (int mode = 0; mode < 3; mode++) {
                        snprintf(desc, sizeof desc, "{%.17g, %.17g} precision %s mode %s", v[0], v[1], PN[pi], MN[mode]);
                        run_case(v, 2, pi, mode, 0);
                    }
                }
                char ck[48];
                snprintf(ck, sizeof ck, "pair/expdist%d", exp_class(v[0], v[1]));
                vh_class(ck, "{%.17g, %.17g}", v[0], v[1]);
            }
        }
    }
    if (vh_section_begin("triples")) {
        for (size_t a = 0; a < n3; a++) {
            for (size_t b = 0; b < n3; b++) {
                for (size_t c = 0; c < n3; c++) {
                    if (!vh_case()) {
                        continue;
                    }
                    double v[3] = {S3[a], S3[b], S3[c]};
                    for (int pi = 0; pi < 4; pi++) {
                        for (int mode = 0; mode < 3; mode++) {
                            snprintf(desc, sizeof desc, "{%.17g, %.17g, %.17g} precision %s mode %s", v[0], v[1], v[2], PN[pi], MN[mode]);
                            run_case(v, 3, pi, mode, 0);
                        }
                    }
                    char ck[48];
                    snprintf(ck, sizeof ck, "triple/normals%d", is_normal_d(v[0]) + is_normal_d(v[1]) + is_normal_d(v[2]));
                    vh_class(ck, "{%.17g, %.17g, %.17g}", v[0], v[1], v[2]);
                }
            }
        }
    }
    /* longer arrays: windows of the alphabet (lengths 9, 17, 64) so that bitmaps and bit packing cross bytes */
    if (vh_section_begin("windows")) {
        static const size_t LEN[3] = {9, 17, 64};
        for (int li = 0; li < 3; li++) {
            for (size_t start = 0; start + LEN[li] <= nDA; start += (vh_thorough ? 7 : 61)) {
                if (!vh_case()) {
                    continue;
                }
                double v[64];
                /* stride through the alphabet so that exponents and specials mix */
                for (size_t i = 0; i < LEN[li]; i++) {
                    v[i] = DA[(start + i * 97) % nDA];
                }
                for (int pi = 0; pi < 4; pi++) {
                    for (int mode = 0; mode < 3; mode++) {
                        snprintf(desc, sizeof desc, "window len=%zu start=%zu stride=97 of the alphabet, precision %s mode %s", LEN[li], start, PN[pi], MN[mode]);
                        run_case(v, LEN[li], pi, mode, 0);
                    }
                }
                char ck[32];
                snprintf(ck, sizeof ck, "window/len%zu", LEN[li]);
                vh_class(ck, "start %zu", start);
            }
        }
    }
    /* rounding modes: singletons and windows once more under each directed rounding mode */
    if (vh_section_begin("rounding-modes")) {
        static const int RM[3] = {FE_DOWNWARD, FE_UPWARD, FE_TOWARDZERO};
        for (int ri = 0; ri < 3; ri++) {
            for (size_t i = 0; i < nDA; i++) {
                if (!vh_case()) {
                    continue;
                }
                g_round = RM[ri];
                for (int pi = 0; pi < 4; pi++) {
                    for (int mode = 0; mode < 3; mode++) {
                        snprintf(desc, sizeof desc, "{%.17g (0x%016" PRIx64 ")} precision %s mode %s, rounding mode %s", DA[i], d2u(DA[i]), PN[pi], MN[mode], round_name());
                        run_case(&DA[i], 1, pi, mode, 0);
                    }
                }
                if (i % 3 == 0) {
                    snprintf(desc, sizeof desc, "{%.17g} requested relative error 1e-3 mode INDEPENDENT, rounding mode %s", DA[i], round_name());
                    run_case(&DA[i], 1, 0, 0, 1e-3);
                }
                g_round = FE_TONEAREST;
            }
            for (size_t start = 0; start + 64 <= nDA; start += 61) {
                if (!vh_case()) {
                    continue;
                }
                double v[64];
                for (size_t i = 0; i < 64; i++) {
                    v[i] = DA[(start + i * 97) % nDA];
                }
                g_round = RM[ri];
                for (int pi = 0; pi < 4; pi++) {
                    for (int mode = 0; mode < 3; mode++) {
                        snprintf(desc, sizeof desc, "window len=64 start=%zu stride=97 of the alphabet, precision %s mode %s, rounding mode %s", start, PN[pi], MN[mode], round_name());
                        run_case(v, 64, pi, mode, 0);
                    }
                }
                g_round = FE_TONEAREST;
            }
            char ck[40];
            g_round = RM[ri];
            snprintf(ck, sizeof ck, "rounding/%s", round_name());
            g_round = FE_TONEAREST;
            vh_class(ck, "singletons and windows");
        }
    }
    /* every length: the packed sign / exponent / mantissa sections put element i at bit i*width of its section, so
     * every length 1..L (and the listed large ones) is a different packing; values cycle through the alphabet (mixed
     * magnitudes and specials) or are all normal with scattered mantissas */
    if (vh_section_begin("lengths")) {
        static double big[70000];
        size_t L = vh_thorough ? 1200 : 300;
        static const size_t LISTED[] = {2047, 2048, 2049, 4095, 4096, 4097, 8191, 8192, 8193, 10000, 65535, 65536, 65537};
        size_t nl = L + sizeof LISTED / sizeof *LISTED;
        for (size_t li = 0; li < nl; li++) {
            for (int flavour = 0; flavour < 2; flavour++) {
                if (!vh_case()) {
                    continue;
                }
                size_t n = li < L ? li + 1 : LISTED[li - L];
                if (!vh_thorough && n > 10000) {
                    continue;
                }
                for (size_t i = 0; i < n; i++) {
                    if (flavour == 0) {
                        big[i] = DA[(li * 31 + i * 97) % nDA];
                    } else {
                        /* normal values within 200 binades of each other, scattered mantissas */
                        uint64_t mant = (i * 0x9E3779B97F4A7C15ULL + li) & 0xFFFFFFFFFFFFFULL;
                        big[i] = mk((int)(i & 1), 900 + (int)((i * 7 + li) % 200), mant);
                    }
                }
                for (int pi = 0; pi < 4; pi++) {
                    for (int mode = 0; mode < 3; mode++) {
                        if (n > 1200 && (pi + mode) % 2 && !vh_thorough) {
                            continue;
                        }
                        snprintf(desc, sizeof desc, "array of %zu %s, precision %s mode %s", n, flavour ? "normal values with scattered mantissas" : "alphabet values (stride 97)", PN[pi], MN[mode]);
                        run_case(big, n, pi, mode, 0);
                    }
                }
                char ck[40];
                snprintf(ck, sizeof ck, "length/%s/%s", n <= 8 ? "1-8" : n <= 64 ? "9-64" : n <= 300 ? "65-300" : n <= 1200 ? "301-1200" : n <= 10000 ? "listed<=10000" : "listed>10000", flavour ? "normal" : "mixed");
                vh_class(ck, "n=%zu", n);
            }
        }
    }
    /* special positions: arrays of normal values with exactly ONE special value (and with exactly two), at every index
     * of arrays spanning one to three 128-element blocks - the special-value bitmap then has a single set bit at every
     * possible byte / word / block position, which a word-at-a-time scan of that bitmap must not overlook */
    if (vh_section_begin("special-positions")) {
        static double arr[1300];
        static const size_t NS[] = {64, 127, 128, 129, 192, 256, 300, 384, 1024};
        const double SP[6] = {0.0, -0.0, u2d(0x7FF8000000000123ULL), -INFINITY, mk(0, 0, 0x8000000000001ULL), INFINITY};
        for (size_t ni = 0; ni < sizeof NS / sizeof *NS; ni++) {
            size_t n = NS[ni];
            if (!vh_thorough && n > 300) {
                continue;
            }
            for (size_t pos = 0; pos < n; pos++) {
                if (!vh_case()) {
                    continue;
                }
                for (int two = 0; two < 2; two++) {
                    for (size_t i = 0; i < n; i++) {
                        uint64_t mant = (i * 0x9E3779B97F4A7C15ULL + ni) & 0xFFFFFFFFFFFFFULL;
                        arr[i] = mk((int)(i & 1), 1000 + (int)((i * 7 + ni) % 40), mant);
                    }
                    arr[pos] = SP[(pos + ni) % 6];
                    size_t pos2 = (pos + 64 + (pos % 3) * 8) % n;
                    if (two) {
                        arr[pos2] = SP[(pos + ni + 3) % 6];
                    }
                    for (int pi = 0; pi < 4; pi++) {
                        for (int mode = 0; mode < 3; mode++) {
                            if (two && (pi + mode) % 2) {
                                continue;
                            }
                            snprintf(desc, sizeof desc, "array of %zu normal values with one special value at index %zu%s, precision %s mode %s", n, pos, two ? " and one more 64+ places on" : "", PN[pi], MN[mode]);
                            run_case(arr, n, pi, mode, 0);
                        }
                    }
                }
                char ck[64];
                snprintf(ck, sizeof ck, "special-at/n%zu/idx%%128=%zu-%zu", n, (pos % 128) / 16 * 16, (pos % 128) / 16 * 16 + 15);
                vh_class(ck, "n=%zu pos=%zu", n, pos);
            }
        }
    }
    /* giant (only where VERIF_GIANT is set: thorough tier, pinned build): more than 2^32 bits of packed mantissas in one
     * array - FULL precision needs 82,595,525 normal values */
    if (getenv("VERIF_GIANT") && vh_section_begin("giant") && vh_case()) {
        size_t n = 82600000;
        double *in = malloc(n * 8), *out = malloc(n * 8);
        uint8_t *enc = malloc(varintFloatMaxEncodedSize(n, VARINT_FLOAT_PRECISION_FULL) + 64);
        if (in && out && enc) {
            for (size_t i = 0; i < n; i++) {
                in[i] = mk((int)(i & 1), 1000 + (int)(i % 37), (i * 0x9E3779B97F4A7C15ULL) & 0xFFFFFFFFFFFFFULL);
            }
            memset(out, 0xAB, n * 8);
            snprintf(desc, sizeof desc, "array of %zu normal values with scattered mantissas, precision FULL mode INDEPENDENT", n);
            size_t w = varintFloatEncode(enc, in, n, VARINT_FLOAT_PRECISION_FULL, VARINT_FLOAT_MODE_INDEPENDENT);
            size_t used = w ? varintFloatDecode(enc, n, out) : 0;
            vh_count("calls", 2);
            if (w == 0 || used != w) {
                vh_fail("float.Decode", "length_disagreement", trig, "%s: encoder wrote %zu, decoder consumed %zu", desc, w, used);
            } else {
                for (size_t i = 0; i < n; i++) {
                    if (d2u(out[i]) != d2u(in[i])) {
                        vh_fail("float.Decode", "full_precision_not_bit_exact", trig, "%s: element %zu 0x%016" PRIx64 " decoded 0x%016" PRIx64, desc, i, d2u(in[i]), d2u(out[i]));
                        break;
                    }
                }
            }
            vh_count("cases", 1);
            vh_class("giant/FULL", "%zu values", n);
        } else {
            vh_flag("giant_allocated", 0);
        }
        free(in);
        free(out);
        free(enc);
    }
    /* automatic precision selection on ARRAYS: lengths around 64 and longer x data classes (float32-exact doubles with
     * odd 24-bit significands, small integers, values with few fraction bits, alphabet mix) x requested errors */
    if (vh_section_begin("auto-arrays")) {
        static const size_t LEN[7] = {1, 2, 63, 64, 65, 100, 300};
        static const double REQ[8] = {1e-15, 1e-12, 1.1920928955078125e-07 /* 2^-23 */, 5.9604644775390625e-08 /* 2^-24 */, 1e-6, 0.0009765625, 1e-3, 0.05};
        static double av[300];
        for (int li = 0; li < 7; li++) {
            for (int dc = 0; dc < 5; dc++) {
                for (int ri = 0; ri < 8; ri++) {
                    if (!vh_case()) {
                        continue;
                    }
                    size_t n = LEN[li];
                    for (size_t i = 0; i < n; i++) {
                        switch (dc) {
                        case 0: /* float32 readings widened to double: bits 0..28 clear, bit 29 often set */
                            av[i] = (double)(20.0f + 0.1f * (float)i);
                            break;
                        case 1: /* odd integers in [2^23, 2^24): 24 significant bits */
                            av[i] = (double)(8388609 + 2 * (long)i);
                            break;
                        case 2: /* few fraction bits */
                            av[i] = 25.5 + (double)i * 0.25;
                            break;
                        case 3: /* every element exactly a binary16 value (11 significant bits) */
                            av[i] = (double)(1024 + (long)i) / 1024.0;
                            break;
                        default:
                            av[i] = DA[(i * 97 + (size_t)li) % nDA];
                            break;
                        }
                    }
                    for (int mode = 0; mode < 3; mode++) {
                        snprintf(desc, sizeof desc, "array of %zu %s, requested relative error %.17g mode %s", n,
                                 dc == 0 ? "float32 readings widened to double" : dc == 1 ? "odd integers in [2^23, 2^24)" : dc == 2 ? "values with two fraction bits" : dc == 3 ? "binary16-exact values" : "alphabet values", REQ[ri], MN[mode]);
                        run_case(av, n, 0, mode, REQ[ri]);
                    }
                    char ck[48];
                    snprintf(ck, sizeof ck, "auto-arrays/class%d/n%zu", dc, n);
                    vh_class(ck, "requested %.3g", REQ[ri]);
                }
            }
        }
    }
    /* automatic precision selection */
    if (vh_section_begin("auto")) {
        double R[64];
        size_t nr = 0;
        static const double B[] = {2.220446049250313e-16 /* 2^-52 */, 1e-10, 1.1920928955078125e-07 /* 2^-23 */, 5e-4, 0.0009765625 /* 2^-10 */, 0.03, 0.0625 /* 2^-4 */};
        for (size_t i = 0; i < sizeof B / sizeof *B; i++) {
            R[nr++] = u2d(d2u(B[i]) - 1);
            R[nr++] = B[i];
            R[nr++] = u2d(d2u(B[i]) + 1);
        }
        static const double X[] = {1e-17, 1e-9, 1e-8, 6e-4, 0.05, 0.5, 0.999, 1e-6, 0.01};
        for (size_t i = 0; i < sizeof X / sizeof *X; i++) {
            R[nr++] = X[i];
        }
        for (size_t ri = 0; ri < nr; ri++) {
            for (size_t i = 0; i < nDA; i += (vh_thorough ? 1 : 3)) {
                if (!vh_case()) {
                    continue;
                }
                for (int mode = 0; mode < 3; mode++) {
                    snprintf(desc, sizeof desc, "{%.17g} requested relative error %.17g mode %s", DA[i], R[ri], MN[mode]);
                    run_case(&DA[i], 1, 0, mode, R[ri]);
                }
            }
            for (size_t a = 0; a < n3; a++) {
                for (size_t b = 0; b < n3; b++) {
                    if (!vh_case()) {
                        continue;
                    }
                    double v[2] = {S3[a], S3[b]};
                    snprintf(desc, sizeof desc, "{%.17g, %.17g} requested relative error %.17g mode COMMON_EXPONENT", v[0], v[1], R[ri]);
                    run_case(v, 2, 0, 1, R[ri]);
                }
            }
            char ck[48];
            snprintf(ck, sizeof ck, "auto/req%.3g", R[ri]);
            vh_class(ck, "requested %.17g", R[ri]);
        }
    }
    vh_write_out();
    return 0;
}
