/* c18.c - E-fault: deviation-bounded enumeration of allocation failures (C18).
 * For every scenario (an allocating API call on inputs chosen to reach every allocation site) the call is
 * run fault-free to count its allocations N, then once for every k <= N with the k-th allocation of the call
 * failing (bound 1) and, in the thorough tier, for every pair k1 < k2 (bound 2).
 * Oracle per execution: no crash / abort / hang; after releasing everything through the documented free
 * functions no block is live (leak oracle, all blocks come from the interposed allocator); the call reported
 * its documented failure value or produced a fully correct result (checked by fault-free decoding /
 * reference set); long-lived objects are observationally the pre- or post-state and remain usable. */
#include "vh.h"
#include "vmalloc.h"

#include <sys/time.h>

#include "varint.h"
#include "varintAdaptive.h"
#include "varintBitmap.h"
#include "varintDict.h"
#include "varintFloat.h"
#include "varintPFOR.h"
#include "varintTagged.h"

/* ---------------------------------------------------------------- fault window */
static size_t K1, K2;           /* failing allocation indices inside the window (0 = none) */
static size_t win_base, win_allocs;
static int win_open;
static const char *scn_name = "";
static char scn_desc[256];
/* trigger tag of the scenario in flight: a function of the scenario (input) only */
static const char *scn_trigger = "untagged";

static void FAULT_BEGIN(void) {
    win_base = vm_alloc_count();
    vm_set_fail(K1 ? win_base + K1 : 0, K2 ? win_base + K2 : 0);
    win_open = 1;
}
static void FAULT_END(void) {
    win_allocs = vm_alloc_count() - win_base;
    vm_set_fail(0, 0);
    win_open = 0;
}
#define FFAIL(kind, ...)                                                                                           \
    do {                                                                                                           \
        char d_[600];                                                                                              \
        snprintf(d_, sizeof d_, __VA_ARGS__);                                                                      \
        vh_fail(scn_name, (kind), scn_trigger, "%s [fail allocation #%zu%s of the call]: %s", scn_desc, K1, K2 ? " and a later one" : "", d_); \
    } while (0)

/* ---------------------------------------------------------------- reference set */
#define U 65536
typedef struct {
    uint64_t w[U / 64];
} bitset;
static inline int bs_get(const bitset *b, uint32_t x) { return (b->w[x >> 6] >> (x & 63)) & 1; }
static inline void bs_set(bitset *b, uint32_t x) { b->w[x >> 6] |= 1ULL << (x & 63); }
static inline void bs_clr(bitset *b, uint32_t x) { b->w[x >> 6] &= ~(1ULL << (x & 63)); }
static uint32_t bs_card(const bitset *b) {
    uint32_t c = 0;
    for (int i = 0; i < U / 64; i++) {
        c += (uint32_t)__builtin_popcountll(b->w[i]);
    }
    return c;
}
static int bs_eq(const bitset *a, const bitset *b) { return memcmp(a, b, sizeof *a) == 0; }

/* observe a bitmap completely into a bitset; returns 0 if the object is internally inconsistent */
static uint16_t obsbuf[U + 8];
static int observe(const varintBitmap *vb, bitset *out, char *why, size_t cap) {
    memset(out, 0, sizeof *out);
    varintBitmapIterator it = varintBitmapCreateIterator(vb);
    uint32_t n = 0;
    int32_t prev = -1;
    while (varintBitmapIteratorNext(&it)) {
        if (n >= U) {
            snprintf(why, cap, "iterator yields more than 65536 values");
            return 0;
        }
        if ((int32_t)it.currentValue <= prev) {
            snprintf(why, cap, "iteration not strictly ascending (%d then %u)", prev, it.currentValue);
            return 0;
        }
        prev = it.currentValue;
        bs_set(out, it.currentValue);
        n++;
    }
    if (n != varintBitmapCardinality(vb)) {
        snprintf(why, cap, "cardinality field %u but iteration yields %u values", varintBitmapCardinality(vb), n);
        return 0;
    }
    static const uint16_t probes[] = {0, 1, 7, 4095, 4096, 4097, 5000, 9999, 65535};
    for (size_t i = 0; i < sizeof probes / sizeof *probes; i++) {
        if (varintBitmapContains(vb, probes[i]) != bs_get(out, probes[i])) {
            snprintf(why, cap, "contains(%u) disagrees with iteration", probes[i]);
            return 0;
        }
    }
    return 1;
}
/* follow-up usability: a fixed fault-free sequence must behave as on the model */
static void followup(varintBitmap *vb, bitset *m) {
    static const uint16_t xs[] = {3, 4096, 65535, 3, 12345};
    char why[160];
    for (size_t i = 0; i < sizeof xs / sizeof *xs; i++) {
        int want = !bs_get(m, xs[i]);
        int got = varintBitmapAdd(vb, xs[i]);
        bs_set(m, xs[i]);
        if (got != want) {
            FFAIL("inconsistent_object", "follow-up add(%u) returned %d want %d", xs[i], got, want);
        }
    }
    int want = bs_get(m, 4096), got = varintBitmapRemove(vb, 4096);
    bs_clr(m, 4096);
    if (got != want) {
        FFAIL("inconsistent_object", "follow-up remove(4096) returned %d want %d", got, want);
    }
    bitset o;
    if (!observe(vb, &o, why, sizeof why)) {
        FFAIL("inconsistent_object", "after follow-up operations: %s", why);
    } else if (!bs_eq(&o, m)) {
        FFAIL("inconsistent_object", "after follow-up operations the set differs from the model (card %u vs %u)", bs_card(&o), bs_card(m));
    }
}

/* build a bitmap of a given container kind (fault-free part of a scenario) */
enum { MK_EMPTY, MK_ARRAY_SMALL, MK_ARRAY_FULLCAP, MK_ARRAY_4096, MK_BITMAP_4097, MK_BITMAP_5000, MK_RUNS_5000, MK_RUNS_4096, MK_ARRAY_4095_ODD, MK_BITMAP_4096, MK_RUNS_CLEARED, MK_ARRAY_150, MK_ARRAY_SHRUNK };
static const char *MKN[] = {"empty", "array{1,5,9}", "array of 16 (capacity full)", "array of 4096", "bitmap of 4097", "bitmap of 5000", "runs [100,5100)", "runs [0,4097)-style", "array of 4095 odd", "dense container holding exactly 4096", "run container after clear (no runs)", "array of 150 (capacity 256)", "array of 20 left after 300 were added and 280 removed"};
static varintBitmap *mk(int kind, bitset *m) {
    varintBitmap *vb = varintBitmapCreate();
    memset(m, 0, sizeof *m);
    if (!vb) {
        return NULL;
    }
    switch (kind) {
    case MK_ARRAY_SMALL:
        varintBitmapAdd(vb, 1);
        varintBitmapAdd(vb, 5);
        varintBitmapAdd(vb, 9);
        bs_set(m, 1);
        bs_set(m, 5);
        bs_set(m, 9);
        break;
    case MK_ARRAY_FULLCAP:
        for (uint32_t i = 0; i < 16; i++) {
            varintBitmapAdd(vb, (uint16_t)(i * 10));
            bs_set(m, i * 10);
        }
        break;
    case MK_ARRAY_4096:
        for (uint32_t i = 0; i < 4096; i++) {
            varintBitmapAdd(vb, (uint16_t)(i * 2));
            bs_set(m, i * 2);
        }
        break;
    case MK_ARRAY_4095_ODD:
        for (uint32_t i = 0; i < 4095; i++) {
            varintBitmapAdd(vb, (uint16_t)(i * 2 + 1));
            bs_set(m, i * 2 + 1);
        }
        break;
    case MK_BITMAP_4097:
        for (uint32_t i = 0; i < 4097; i++) {
            varintBitmapAdd(vb, (uint16_t)(i * 3));
            bs_set(m, i * 3);
        }
        break;
    case MK_BITMAP_4096:
        for (uint32_t i = 0; i < 4097; i++) {
            varintBitmapAdd(vb, (uint16_t)(i * 3));
            bs_set(m, i * 3);
        }
        varintBitmapRemove(vb, 0); /* 4097 -> 4096: stays a dense container */
        bs_clr(m, 0);
        break;
    case MK_RUNS_CLEARED:
        varintBitmapAddRange(vb, 100, 5100);
        varintBitmapClear(vb);
        break;
    case MK_ARRAY_150:
        for (uint32_t i = 0; i < 150; i++) {
            varintBitmapAdd(vb, (uint16_t)(i * 11 + 3));
            bs_set(m, i * 11 + 3);
        }
        break;
    case MK_ARRAY_SHRUNK:
        for (uint32_t i = 0; i < 300; i++) {
            varintBitmapAdd(vb, (uint16_t)(i * 5));
        }
        for (uint32_t i = 20; i < 300; i++) {
            varintBitmapRemove(vb, (uint16_t)(i * 5));
        }
        for (uint32_t i = 0; i < 20; i++) {
            bs_set(m, i * 5);
        }
        break;
    case MK_BITMAP_5000:
        for (uint32_t i = 0; i < 5000; i++) {
            varintBitmapAdd(vb, (uint16_t)(i * 7));
            bs_set(m, (i * 7) & 0xffff);
        }
        break;
    case MK_RUNS_5000:
        varintBitmapAddRange(vb, 100, 5100);
        for (uint32_t i = 100; i < 5100; i++) {
            bs_set(m, i);
        }
        break;
    case MK_RUNS_4096:
        varintBitmapAddRange(vb, 0, 4097);
        varintBitmapRemove(vb, 0); /* dissolves to ... whatever the library does; model follows */
        for (uint32_t i = 1; i < 4097; i++) {
            bs_set(m, i);
        }
        break;
    default:
        break;
    }
    return vb;
}

/* ---------------------------------------------------------------- scenarios */
static uint64_t VALS[12000];
static uint8_t ENC[400000];
static uint64_t OUT[12000];

static size_t fill_vals(int kind) {
    size_t n = 0;
    switch (kind) {
    case 0: /* 5 unique over 60 */
        for (n = 0; n < 60; n++) {
            VALS[n] = (n % 5) * 1000;
        }
        break;
    case 1: /* 40 unique: dictionary realloc */
        for (n = 0; n < 200; n++) {
            VALS[n] = (n % 40) * 77777;
        }
        break;
    case 2: /* clustered, no outliers */
        for (n = 0; n < 100; n++) {
            VALS[n] = 5000 + (n * 7) % 90;
        }
        break;
    case 3: /* clustered with outliers: PFOR exceptions */
        for (n = 0; n < 100; n++) {
            VALS[n] = (n % 25 == 24) ? 1000000000ULL + n : 100 + (n % 50);
        }
        break;
    case 4: /* strictly increasing small: bitmap */
        for (n = 0; n < 300; n++) {
            VALS[n] = n * 3;
        }
        break;
    case 5: /* sorted large: delta */
        for (n = 0; n < 300; n++) {
            VALS[n] = 1000000000000ULL + n * 17;
        }
        break;
    case 6: /* > 10000 elements: sampled uniqueness */
        for (n = 0; n < 10500; n++) {
            VALS[n] = (n * 2654435761ULL) % 100000;
        }
        break;
    case 7: /* unsorted wide: tagged */
        for (n = 0; n < 50; n++) {
            VALS[n] = (n * 0x9e3779b97f4a7c15ULL);
        }
        break;
    case 8: /* strictly increasing, 5000 elements: bitmap container dense */
        for (n = 0; n < 5000; n++) {
            VALS[n] = n * 2;
        }
        break;
    case 9: /* ascending small values with one duplicate: must NOT end up in the set-based encoding */
        for (n = 0; n < 50; n++) {
            VALS[n] = n;
        }
        VALS[10] = 9;
        break;
    case 10: /* range exactly 0xFF: the in-range maximum collides with the 1-byte PFOR marker */
        for (n = 0; n < 200; n++) {
            VALS[n] = 5000 + (n * 37) % 256;
        }
        VALS[150] = 5255;
        VALS[3] = 5000;
        break;
    case 11: /* range exactly 0xFFFF */
        for (n = 0; n < 300; n++) {
            VALS[n] = 70000 + (n * 211) % 65536;
        }
        VALS[7] = 70000;
        VALS[200] = 70000 + 65535;
        break;
    case 13: { /* 21 scattered 9-byte values, 8-byte spread, one outlier: PFOR is selected and its size is within one byte of the adaptive bound */
        n = 21;
        uint64_t mn = 1ULL << 62, S = 1ULL << 56;
        for (size_t j = 0; j < n; j++) {
            VALS[(j * 5 + 3) % n] = j == 0 ? mn : mn + S + j;
        }
        VALS[((n - 1) * 5 + 3) % n] += S;
        break;
    }
    case 14: /* exceptions above the percentile AND in-range values equal to min + 0xFF (the 1-byte marker) */
        for (n = 0; n < 40; n++) {
            VALS[n] = n % 4 == 0 ? 255 : (n * 7) % 200;
        }
        VALS[9] = 100000;
        VALS[30] = 7000000;
        VALS[1] = 0;
        break;
    case 15: /* the same with the 2-byte marker */
        for (n = 0; n < 60; n++) {
            VALS[n] = n % 5 == 0 ? 1000 + 65535 : 1000 + (n * 977) % 60000;
        }
        VALS[7] = 1000;
        VALS[11] = 1ULL << 40;
        VALS[44] = 1ULL << 33;
        break;
    case 16: /* 5000 consecutive values: one run */
        for (n = 0; n < 5000; n++) {
            VALS[n] = 100 + n;
        }
        break;
    case 17: /* 4097 consecutive values ending at 65534 */
        for (n = 0; n < 4097; n++) {
            VALS[n] = 65534 - 4096 + n;
        }
        break;
    case 18: /* > 10000 elements, every 10th equal (the stride of the uniqueness sample), the others distinct 9-byte
              * values: the dictionary is selected although its encoding exceeds the adaptive bound - the size probe
              * (which allocates) is the only thing between the selection and the caller's buffer */
    case 19:
    case 20:
        for (n = 0; n < (kind == 18 ? 10001u : 12000u); n++) {
            VALS[n] = (n % 10 == 0) ? 42 : (kind == 20 ? 100000 + n : 0xF000000000000000ULL + n);
        }
        break;
    case 12: /* 300 distinct values: 2-byte dictionary indices */
        for (n = 0; n < 600; n++) {
            VALS[n] = (n % 300) * 1000003ULL + 17;
        }
        break;
    }
    return n;
}
static const char *VALN[] = {"60 values over 5 distinct", "200 values over 40 distinct", "100 clustered values", "100 clustered values with 4 outliers", "300 strictly increasing small values", "300 sorted large values", "10500 pseudo-scattered values", "50 unsorted wide values", "5000 strictly increasing values", "ascending 0..49 with one duplicate", "200 values with range exactly 0xFF", "300 values with range exactly 0xFFFF", "600 values over 300 distinct", "21 scattered 9-byte values with an 8-byte spread and one outlier", "40 values: exceptions plus in-range values equal to min+0xFF", "60 values: exceptions plus in-range values equal to min+0xFFFF", "5000 consecutive values from 100", "4097 consecutive values ending at 65534", "10001 values, every 10th equal, the others distinct 9-byte values", "12000 values, every 10th equal, the others distinct 9-byte values", "12000 values, every 10th equal, the others distinct 3-byte values"};

static int same_u64(const uint64_t *a, const uint64_t *b, size_t n) { return memcmp(a, b, n * 8) == 0; }

/* verify an adaptive encoding fault-free */
static void verify_adaptive(size_t wrote, size_t n, const char *what) {
    if (wrote == 0) {
        return; /* reported failure */
    }
    if (wrote == 1) {
        FFAIL("wrong_success", "%s returned 1: only the header byte was written for %zu values", what, n);
        return;
    }
    memset(OUT, 0xAB, n * 8);
    size_t r = varintAdaptiveDecode(ENC, OUT, n, NULL);
    if (r != n || !same_u64(OUT, VALS, n)) {
        FFAIL("wrong_success", "%s returned %zu bytes (encoding %d) that decode to %zu values differing from the input", what, wrote, ENC[0], r);
    }
}

static void scn_dict(int which, int vk, int prior) {
    size_t n = fill_vals(vk);
    static const int PRIOR_DISTINCT[3] = {8, 100, 300};
    if (which == 6) {
        snprintf(scn_desc, sizeof scn_desc, "%s, dictionary already holding %d entries", VALN[vk], PRIOR_DISTINCT[prior]);
    } else {
        snprintf(scn_desc, sizeof scn_desc, "%s", VALN[vk]);
    }
    switch (which) {
    case 0: { /* Create */
        FAULT_BEGIN();
        varintDict *d = varintDictCreate();
        FAULT_END();
        if (d) {
            if (varintDictBuild(d, VALS, n) != 0) {
                FFAIL("inconsistent_object", "dictionary created under fault cannot be built fault-free");
            }
            varintDictFree(d);
        }
        break;
    }
    case 1:   /* Build on a fresh dict, then use */
    case 6: { /* Build on a dictionary that already holds 8 entries (rebuild) */
        varintDict *d = varintDictCreate();
        if (!d) {
            return;
        }
        static uint64_t small[24], prev[900], cur[1300];
        for (size_t i = 0; i < 24; i++) {
            small[i] = (i % 8) * 11 + 1;
        }
        size_t nprev = (size_t)PRIOR_DISTINCT[prior] * 3;
        for (size_t i = 0; i < nprev; i++) {
            prev[i] = (i % (size_t)PRIOR_DISTINCT[prior]) * 11 + 1;
        }
        if (which == 6 && varintDictBuild(d, prev, nprev) != 0) {
            varintDictFree(d);
            return;
        }
        FAULT_BEGIN();
        int rc = varintDictBuild(d, VALS, n);
        FAULT_END();
        if (rc == 0) {
            size_t w = varintDictEncodeWithDict(ENC, d, VALS, n);
            size_t r = w ? varintDictDecodeInto(ENC, w, OUT, n) : 0;
            if (w == 0 || r != n || !same_u64(OUT, VALS, n)) {
                FFAIL("wrong_success", "Build returned 0 but the dictionary does not encode the input losslessly");
            }
        } else if (rc != -1) {
            FFAIL("wrong_failure_value", "Build returned %d", rc);
        } else {
            /* the object must remain consistent and usable: observers first ... */
            for (uint32_t i = 0; i < d->size && i < 64; i++) {
                uint64_t v = varintDictLookup(d, i);
                int32_t f = varintDictFind(d, v);
                if (f < 0 || varintDictLookup(d, (uint32_t)f) != v) {
                    FFAIL("inconsistent_object", "after a failed Build: Lookup(%u)=%" PRIu64 " but Find returns %d", i, v, f);
                    break;
                }
            }
            (void)varintDictFind(d, 12345);
            /* ... then the dictionary used AS IT IS: whatever entries it says it holds must encode and decode
             * losslessly (a failed Build must not leave index width, size and values describing different data) */
            if (d->size > 0 && d->size <= 600) {
                size_t m = (size_t)d->size * 2 + 3;
                for (size_t i = 0; i < m; i++) {
                    cur[i] = varintDictLookup(d, (uint32_t)((i * 7) % d->size));
                }
                size_t w = varintDictEncodeWithDict(ENC, d, cur, m);
                if (w) {
                    memset(OUT, 0xAB, m * 8);
                    size_t r = varintDictDecodeInto(ENC, w, OUT, m);
                    size_t oc = 0;
                    uint64_t *o2 = varintDictDecode(ENC, w, &oc);
                    if (r != m || !same_u64(OUT, cur, m) || !o2 || oc != m || !same_u64(o2, cur, m)) {
                        FFAIL("inconsistent_object", "after a failed Build the dictionary (%u entries) encodes its own entries into %zu bytes that decode to %zu/%zu values differing from them", d->size, w, r, oc);
                    }
                    free(o2);
                }
            }
            /* ... then a fault-free build of an input with fewer distinct values than the capacity ... */
            if (varintDictBuild(d, small, 24) != 0) {
                FFAIL("inconsistent_object", "dictionary unusable after a failed Build (small rebuild fails)");
            } else {
                size_t w = varintDictEncodeWithDict(ENC, d, small, 24);
                size_t r = w ? varintDictDecodeInto(ENC, w, OUT, 24) : 0;
                if (w == 0 || r != 24 || !same_u64(OUT, small, 24)) {
                    FFAIL("inconsistent_object", "dictionary rebuilt after a failed Build does not encode losslessly");
                }
            }
            /* ... and of the original input */
            if (varintDictBuild(d, VALS, n) != 0) {
                FFAIL("inconsistent_object", "dictionary unusable after a failed Build");
            }
        }
        varintDictFree(d);
        break;
    }
    case 2: { /* Encode */
        FAULT_BEGIN();
        size_t w = varintDictEncode(ENC, VALS, n);
        FAULT_END();
        if (w) {
            size_t r = varintDictDecodeInto(ENC, w, OUT, n);
            if (r != n || !same_u64(OUT, VALS, n)) {
                FFAIL("wrong_success", "Encode returned %zu bytes that do not decode to the input", w);
            }
        }
        break;
    }
    case 3: { /* Decode (allocating) */
        size_t w = varintDictEncode(ENC, VALS, n);
        size_t oc = 0;
        FAULT_BEGIN();
        uint64_t *res = varintDictDecode(ENC, w, &oc);
        FAULT_END();
        if (res) {
            if (oc != n || !same_u64(res, VALS, n)) {
                FFAIL("wrong_success", "Decode returned %zu values differing from the input", oc);
            }
            free(res);
        }
        break;
    }
    case 4: { /* DecodeInto */
        size_t w = varintDictEncode(ENC, VALS, n);
        FAULT_BEGIN();
        size_t r = varintDictDecodeInto(ENC, w, OUT, n);
        FAULT_END();
        if (r != 0 && (r != n || !same_u64(OUT, VALS, n))) {
            FFAIL("wrong_success", "DecodeInto returned %zu values differing from the input", r);
        }
        break;
    }
    case 5: { /* EncodedSize / GetStats / CompressionRatio */
        size_t truth = varintDictEncode(ENC, VALS, n);
        FAULT_BEGIN();
        size_t sz = varintDictEncodedSize(VALS, n);
        varintDictStats st;
        memset(&st, 0, sizeof st);
        int rc = varintDictGetStats(VALS, n, &st);
        float ratio = varintDictCompressionRatio(VALS, n);
        FAULT_END();
        if (sz != 0 && sz != truth) {
            FFAIL("wrong_success", "EncodedSize returned %zu, real size %zu", sz, truth);
        }
        if (rc == 0 && st.totalBytes != truth) {
            FFAIL("wrong_success", "GetStats returned 0 with totalBytes %zu, real size %zu", st.totalBytes, truth);
        } else if (rc != 0 && rc != -1) {
            FFAIL("wrong_failure_value", "GetStats returned %d", rc);
        }
        (void)ratio;
        break;
    }
    }
}

static void scn_pfor(int which, int vk) {
    size_t n = fill_vals(vk);
    snprintf(scn_desc, sizeof scn_desc, "%s", VALN[vk]);
    if (which == 0) {
        varintPFORMeta truth, m;
        memset(&truth, 0, sizeof truth);
        varintPFORComputeThreshold(VALS, (uint32_t)n, 95, &truth);
        memset(&m, 0, sizeof m);
        FAULT_BEGIN();
        varintWidth w = varintPFORComputeThreshold(VALS, (uint32_t)n, 95, &m);
        FAULT_END();
        if (w != 0 && (w != truth.width || m.count != truth.count || m.min != truth.min || m.exceptionCount != truth.exceptionCount)) {
            FFAIL("wrong_success", "ComputeThreshold returned width %d with meta{count=%u min=%" PRIu64 " exceptions=%u}; fault-free result is width %d count=%u min=%" PRIu64 " exceptions=%u", (int)w, m.count, m.min, m.exceptionCount, (int)truth.width, truth.count, truth.min, truth.exceptionCount);
        }
    } else {
        varintPFORMeta m;
        memset(&m, 0, sizeof m);
        FAULT_BEGIN();
        size_t w = varintPFOREncode(ENC, VALS, (uint32_t)n, 95, &m);
        FAULT_END();
        if (w) {
            varintPFORMeta dm;
            memset(&dm, 0, sizeof dm);
            memset(OUT, 0xAB, n * 8);
            size_t r = varintPFORDecode(ENC, OUT, &dm);
            if (r != n || !same_u64(OUT, VALS, n)) {
                FFAIL("wrong_success", "Encode returned %zu bytes that decode to %zu values differing from the input", w, r);
            }
        }
    }
}

static void scn_float(int which, int vk) {
    static double dv[64], dout[64];
    size_t n = 20;
    for (size_t i = 0; i < n; i++) {
        dv[i] = vk == 0 ? (1.5 + (double)i * 0.25) : vk == 1 ? (i % 2 ? 0.0 : 1.0 / 0.0) : 0;
        if (vk >= 2) {
            /* mixed: special values (zero, infinity, NaN) with normal values after each of them; the normal values need
             * few mantissa bits, so every precision reproduces them exactly */
            dv[i] = (i % 5 == (vk == 2 ? 1 : 0)) ? (i % 3 == 0 ? 0.0 : i % 3 == 1 ? -1.0 / 0.0 : __builtin_nan("")) : (vk == 2 ? 1.0 : -3.0) * (1.5 + (double)i * 0.25) * (double)(1u << (i % 7));
        }
    }
    varintFloatPrecision fprec = vk == 3 ? VARINT_FLOAT_PRECISION_HIGH : VARINT_FLOAT_PRECISION_FULL;
    snprintf(scn_desc, sizeof scn_desc, vk == 0 ? "20 normal doubles" : vk == 1 ? "20 special doubles (0 / inf)" : vk == 2 ? "20 doubles, specials at i%%5==1 between normal values" : "20 doubles, specials at i%%5==0 between normal values, HIGH precision");
    if (which == 0) {
        FAULT_BEGIN();
        size_t w = varintFloatEncode(ENC, dv, n, fprec, vk == 3 ? VARINT_FLOAT_MODE_INDEPENDENT : VARINT_FLOAT_MODE_DELTA_EXPONENT);
        FAULT_END();
        if (w) {
            size_t r = varintFloatDecode(ENC, n, dout);
            if (r != w || memcmp(dv, dout, n * 8)) {
                FFAIL("wrong_success", "Encode returned %zu bytes that do not decode to the input", w);
            }
        }
    } else {
        size_t w = varintFloatEncode(ENC, dv, n, fprec, vk == 3 ? VARINT_FLOAT_MODE_DELTA_EXPONENT : VARINT_FLOAT_MODE_COMMON_EXPONENT);
        memset(dout, 0xAB, sizeof dout);
        FAULT_BEGIN();
        size_t r = varintFloatDecode(ENC, n, dout);
        FAULT_END();
        if (r != 0 && (r != w || memcmp(dv, dout, n * 8))) {
            FFAIL("wrong_success", "Decode returned %zu (encoder wrote %zu) with values differing from the input", r, w);
        }
    }
}

static void scn_adaptive(int which, int vk) {
    size_t n = fill_vals(vk);
    snprintf(scn_desc, sizeof scn_desc, "%s", VALN[vk]);
    if (which == 0) { /* CountUnique / Analyze */
        size_t truth = varintAdaptiveCountUnique(VALS, n);
        FAULT_BEGIN();
        size_t u = varintAdaptiveCountUnique(VALS, n);
        varintAdaptiveDataStats st;
        varintAdaptiveAnalyze(VALS, n, &st);
        FAULT_END();
        /* the estimate is documented as approximate with a conservative fallback: only sanity is demanded */
        if (u > n || u == 0 || st.count != n || st.uniqueCount > n) {
            FFAIL("wrong_success", "CountUnique returned %zu (fault-free %zu) for %zu values; Analyze count=%zu unique=%zu", u, truth, n, st.count, st.uniqueCount);
        }
    } else if (which == 1) { /* Encode auto: the destination holds exactly varintAdaptiveMaxSize(n) bytes before a guard page */
        size_t mx = varintAdaptiveMaxSize(n);
        uint8_t *dst = vh_gb_get(0, mx, 0xEE);
        FAULT_BEGIN();
        size_t w = varintAdaptiveEncode(dst, VALS, n, NULL);
        FAULT_END();
        if (w > mx) {
            FFAIL("write_past_bound", "varintAdaptiveEncode returned %zu bytes, varintAdaptiveMaxSize(%zu) = %zu", w, n, mx);
            w = 0;
        }
        memcpy(ENC, dst, w);
        verify_adaptive(w, n, "varintAdaptiveEncode");
    } else if (which >= 10 && which <= 15) { /* EncodeWith(type) */
        int type = which - 10;
        FAULT_BEGIN();
        size_t w = varintAdaptiveEncodeWith(ENC, VALS, n, (varintAdaptiveEncodingType)type, NULL);
        FAULT_END();
        char what[48];
        snprintf(what, sizeof what, "varintAdaptiveEncodeWith(type %d)", type);
        verify_adaptive(w, n, what);
    } else if (which >= 20 && which <= 25) { /* Decode of each type */
        int type = which - 20;
        size_t w = varintAdaptiveEncodeWith(ENC, VALS, n, (varintAdaptiveEncodingType)type, NULL);
        if (w <= 1) {
            return;
        }
        memset(OUT, 0xAB, n * 8);
        FAULT_BEGIN();
        size_t r = varintAdaptiveDecode(ENC, OUT, n, NULL);
        FAULT_END();
        if (r != 0 && (r != n || !same_u64(OUT, VALS, n))) {
            FFAIL("wrong_success", "Decode(type %d) returned %zu values differing from the input", type, r);
        }
    }
}

/* unary bitmap operations under fault */
enum { B_CREATE, B_CLONE, B_ADD, B_REMOVE, B_ADDRANGE_SMALL, B_ADDRANGE_LARGE, B_ADDMANY, B_REMOVERANGE, B_DECODE, B_ENCODE_ROUNDTRIP, B_OPTIMIZE, B_CLEAR, B_READONLY };
static void scn_bitmap_unary(int op, int kind, uint32_t arg) {
    static bitset pre, post, obs;
    char why[160];
    snprintf(scn_desc, sizeof scn_desc, "on %s, argument %u", MKN[kind], arg);
    /* the bulk mutators return void: they have no way to report a failed insertion */
    scn_trigger = (op == B_ADDMANY || op == B_ADDRANGE_SMALL || op == B_ADDRANGE_LARGE || op == B_REMOVERANGE) ? "void_bulk_mutator" : "untagged";
    if (op == B_CREATE) {
        FAULT_BEGIN();
        varintBitmap *vb = varintBitmapCreate();
        FAULT_END();
        if (vb) {
            memset(&pre, 0, sizeof pre);
            followup(vb, &pre);
            varintBitmapFree(vb);
        }
        return;
    }
    varintBitmap *vb = mk(kind, &pre);
    if (!vb) {
        return;
    }
    post = pre;
    int reported = -1; /* -1 none, 0 failure / unchanged, 1 success / changed */
    int changed_expected = 0;
    varintBitmap *res = NULL;
    switch (op) {
    case B_CLONE:
        FAULT_BEGIN();
        res = varintBitmapClone(vb);
        FAULT_END();
        if (res) {
            if (!observe(res, &obs, why, sizeof why) || !bs_eq(&obs, &pre)) {
                FFAIL("wrong_success", "Clone returned an object that differs from its source");
            } else {
                bitset m2 = pre;
                followup(res, &m2);
            }
            varintBitmapFree(res);
        }
        break;
    case B_ADD:
        changed_expected = !bs_get(&pre, arg);
        bs_set(&post, arg);
        FAULT_BEGIN();
        reported = varintBitmapAdd(vb, (uint16_t)arg);
        FAULT_END();
        break;
    case B_REMOVE:
        changed_expected = bs_get(&pre, arg);
        bs_clr(&post, arg);
        FAULT_BEGIN();
        reported = varintBitmapRemove(vb, (uint16_t)arg);
        FAULT_END();
        break;
    case B_ADDRANGE_SMALL:
    case B_ADDRANGE_LARGE: {
        uint32_t lo = arg, hi = arg + (op == B_ADDRANGE_SMALL ? 40 : 6000);
        for (uint32_t x = lo; x < hi; x++) {
            bs_set(&post, x);
        }
        FAULT_BEGIN();
        varintBitmapAddRange(vb, (uint16_t)lo, (uint16_t)hi);
        FAULT_END();
        break;
    }
    case B_ADDMANY: {
        static uint16_t many[64];
        for (uint32_t i = 0; i < 40; i++) {
            many[i] = (uint16_t)(arg + i * 5);
            bs_set(&post, many[i]);
        }
        FAULT_BEGIN();
        varintBitmapAddMany(vb, many, 40);
        FAULT_END();
        break;
    }
    case B_REMOVERANGE:
        for (uint32_t x = arg; x < arg + 3000; x++) {
            bs_clr(&post, x);
        }
        FAULT_BEGIN();
        varintBitmapRemoveRange(vb, (uint16_t)arg, (uint16_t)(arg + 3000));
        FAULT_END();
        break;
    case B_OPTIMIZE: /* never changes the set; allocates nothing today - a version that does must survive a failure */
        FAULT_BEGIN();
        varintBitmapOptimize(vb);
        FAULT_END();
        break;
    case B_CLEAR:
        memset(&post, 0, sizeof post);
        FAULT_BEGIN();
        varintBitmapClear(vb);
        FAULT_END();
        break;
    case B_READONLY: { /* the observers and the serialiser, under fault */
        static uint16_t arr[U + 8];
        varintBitmapStats st;
        memset(&st, 0, sizeof st);
        FAULT_BEGIN();
        uint32_t n = varintBitmapToArray(vb, arr);
        varintBitmapGetStats(vb, &st);
        size_t len = varintBitmapEncode(vb, ENC);
        (void)varintBitmapSizeBytes(vb);
        FAULT_END();
        if (n != bs_card(&pre) || st.cardinality != bs_card(&pre) || len < 5) {
            FFAIL("wrong_success", "ToArray returned %u, GetStats cardinality %u, Encode %zu bytes for a set of %u", n, st.cardinality, len, bs_card(&pre));
        }
        break;
    }
    case B_DECODE: {
        size_t len = varintBitmapEncode(vb, ENC);
        FAULT_BEGIN();
        res = varintBitmapDecode(ENC, len);
        FAULT_END();
        if (res) {
            if (!observe(res, &obs, why, sizeof why) || !bs_eq(&obs, &pre)) {
                FFAIL("wrong_success", "Decode returned an object that differs from the encoded set");
            } else {
                bitset m2 = pre;
                followup(res, &m2);
            }
            varintBitmapFree(res);
        }
        break;
    }
    }
    /* the operated-on object: consistent, and observationally pre- or post-state */
    if (!observe(vb, &obs, why, sizeof why)) {
        FFAIL("inconsistent_object", "%s", why);
    } else {
        int is_pre = bs_eq(&obs, &pre), is_post = bs_eq(&obs, &post);
        if (!is_pre && !is_post) {
            FFAIL("silent_partial_update", "set is neither the state before the call (card %u) nor the intended result (card %u): card %u", bs_card(&pre), bs_card(&post), bs_card(&obs));
        } else if (reported == 1 && !is_post) {
            FFAIL("wrong_success", "call reported a change but the set is unchanged");
        } else if (reported == 0 && changed_expected && !is_pre) {
            FFAIL("wrong_failure_value", "call reported no change but the set was modified");
        } else if (reported == -1 && !is_post && K1 == 0) {
            FFAIL("wrong_success", "fault-free call did not produce the intended result");
        }
        bitset m2 = obs;
        followup(vb, &m2);
    }
    varintBitmapFree(vb);
}

static void scn_bitmap_binary(int opk, int ka, int kb) {
    static bitset ma, mb, want, obs;
    static const char *ON[4] = {"And", "Or", "Xor", "AndNot"};
    char why[160];
    snprintf(scn_desc, sizeof scn_desc, "%s(%s, %s)", ON[opk], MKN[ka], MKN[kb]);
    varintBitmap *a = mk(ka, &ma), *b = mk(kb, &mb);
    if (!a || !b) {
        varintBitmapFree(a);
        varintBitmapFree(b);
        return;
    }
    for (int i = 0; i < U / 64; i++) {
        want.w[i] = opk == 0 ? (ma.w[i] & mb.w[i]) : opk == 1 ? (ma.w[i] | mb.w[i]) : opk == 2 ? (ma.w[i] ^ mb.w[i]) : (ma.w[i] & ~mb.w[i]);
    }
    FAULT_BEGIN();
    varintBitmap *r = opk == 0 ? varintBitmapAnd(a, b) : opk == 1 ? varintBitmapOr(a, b) : opk == 2 ? varintBitmapXor(a, b) : varintBitmapAndNot(a, b);
    FAULT_END();
    if (r) {
        if (!observe(r, &obs, why, sizeof why)) {
            FFAIL("inconsistent_object", "result: %s", why);
        } else if (!bs_eq(&obs, &want)) {
            FFAIL("wrong_success", "returned a set of %u elements, the correct result has %u", bs_card(&obs), bs_card(&want));
        } else {
            bitset m2 = want;
            followup(r, &m2);
        }
        varintBitmapFree(r);
    }
    if (!observe(a, &obs, why, sizeof why) || !bs_eq(&obs, &ma) || !observe(b, &obs, why, sizeof why) || !bs_eq(&obs, &mb)) {
        FFAIL("inconsistent_object", "an operand was modified");
    }
    varintBitmapFree(a);
    varintBitmapFree(b);
}

/* ---------------------------------------------------------------- scenario table */
typedef struct {
    char name[64];
    int fam, a, b, c;
} scenario;
static scenario SC[600];
static int NSC = 0;
static void add_sc(const char *name, int fam, int a, int b, int c) {
    snprintf(SC[NSC].name, sizeof SC[NSC].name, "%s", name);
    SC[NSC].fam = fam;
    SC[NSC].a = a;
    SC[NSC].b = b;
    SC[NSC].c = c;
    NSC++;
}
static void build_scenarios(void) {
    static const char *DN[7] = {"dict.Create", "dict.Build", "dict.Encode", "dict.Decode", "dict.DecodeInto", "dict.EncodedSize/GetStats", "dict.Build(rebuild)"};
    for (int w = 0; w < 7; w++) {
        for (int vk = 0; vk < 2; vk++) {
            add_sc(DN[w], 0, w, vk, 0);
        }
    }
    /* rebuilds across index-width classes: prior population 8 / 100 / 300 entries x new input 5 / 40 / 300 / ~10000 distinct */
    static const int rebuild_vk[4] = {0, 1, 12, 6};
    for (int prior = 0; prior < 3; prior++) {
        for (int j = 0; j < 4; j++) {
            if (prior == 0 && j < 2) {
                continue; /* already listed above */
            }
            add_sc(DN[6], 0, 6, rebuild_vk[j], prior);
        }
    }
    add_sc(DN[1], 0, 1, 12, 0);
    add_sc(DN[1], 0, 1, 6, 0);
    add_sc("PFOR.ComputeThreshold", 1, 0, 2, 0);
    add_sc("PFOR.ComputeThreshold", 1, 0, 3, 0);
    add_sc("PFOR.Encode", 1, 1, 2, 0);
    add_sc("PFOR.Encode", 1, 1, 3, 0);
    add_sc("float.Encode", 2, 0, 0, 0);
    add_sc("float.Encode", 2, 0, 1, 0);
    add_sc("float.Decode", 2, 1, 0, 0);
    add_sc("float.Decode", 2, 1, 1, 0);
    add_sc("float.Encode", 2, 0, 2, 0);
    add_sc("float.Encode", 2, 0, 3, 0);
    add_sc("float.Decode", 2, 1, 2, 0);
    add_sc("float.Decode", 2, 1, 3, 0);
    add_sc("adaptive.CountUnique/Analyze", 3, 0, 0, 0);
    add_sc("adaptive.CountUnique/Analyze", 3, 0, 6, 0);
    for (int vk = 0; vk <= 11; vk++) {
        add_sc("adaptive.Encode", 3, 1, vk, 0);
    }
    add_sc("PFOR.Encode", 1, 1, 10, 0);
    add_sc("PFOR.Encode", 1, 1, 11, 0);
    add_sc("PFOR.Encode", 1, 1, 14, 0);
    add_sc("PFOR.Encode", 1, 1, 15, 0);
    add_sc("PFOR.ComputeThreshold", 1, 0, 14, 0);
    add_sc("adaptive.Encode", 3, 1, 13, 0);
    add_sc("adaptive.Encode", 3, 1, 14, 0);
    add_sc("adaptive.Encode", 3, 1, 15, 0);
    add_sc("adaptive.EncodeWith[2]", 3, 12, 13, 0);
    add_sc("adaptive.EncodeWith[2]", 3, 12, 14, 0);
    add_sc("adaptive.EncodeWith[2]", 3, 12, 15, 0);
    add_sc("adaptive.Decode[2]", 3, 22, 14, 0);
    for (int vk = 16; vk <= 17; vk++) {
        add_sc("adaptive.Encode", 3, 1, vk, 0);
        add_sc("adaptive.EncodeWith[4]", 3, 14, vk, 0);
        add_sc("adaptive.EncodeWith[0]", 3, 10, vk, 0);
        add_sc("adaptive.Decode[4]", 3, 24, vk, 0);
    }
    for (int vk = 18; vk <= 20; vk++) {
        add_sc("adaptive.Encode", 3, 1, vk, 0);
        add_sc("adaptive.CountUnique/Analyze", 3, 0, vk, 0);
    }
    add_sc("PFOR.ComputeThreshold", 1, 0, 10, 0);
    add_sc("adaptive.EncodeWith[2]", 3, 12, 10, 0);
    add_sc("adaptive.EncodeWith[2]", 3, 12, 11, 0);
    add_sc("adaptive.EncodeWith[0]", 3, 10, 9, 0);
    add_sc("adaptive.EncodeWith[5]", 3, 15, 9, 0);
    static const int forced_vals[6][3] = {{5, 2, -1}, {2, 0, -1}, {3, 2, -1}, {0, 1, -1}, {4, 8, -1}, {7, 0, -1}};
    for (int t = 0; t < 6; t++) {
        for (int j = 0; j < 3 && forced_vals[t][j] >= 0; j++) {
            char nm[48];
            snprintf(nm, sizeof nm, "adaptive.EncodeWith[%d]", t);
            add_sc(nm, 3, 10 + t, forced_vals[t][j], 0);
            snprintf(nm, sizeof nm, "adaptive.Decode[%d]", t);
            add_sc(nm, 3, 20 + t, forced_vals[t][j], 0);
        }
    }
    add_sc("bitmap.Create", 4, B_CREATE, 0, 0);
    /* entry points that allocate nothing in the unchanged library are scenarios too (N = 0 today: the fault-free run
     * is the whole exploration; a version that starts allocating gets every one of its allocations failed) */
    static const int kindsO[8] = {MK_EMPTY, MK_ARRAY_SMALL, MK_ARRAY_150, MK_ARRAY_SHRUNK, MK_ARRAY_4096, MK_BITMAP_5000, MK_RUNS_5000, MK_RUNS_CLEARED};
    for (int i = 0; i < 8; i++) {
        add_sc("bitmap.Optimize", 4, B_OPTIMIZE, kindsO[i], 0);
        add_sc("bitmap.Clear", 4, B_CLEAR, kindsO[i], 0);
        add_sc("bitmap.ToArray/GetStats/Encode", 4, B_READONLY, kindsO[i], 0);
    }
    static const int kinds3[3] = {MK_ARRAY_SMALL, MK_BITMAP_5000, MK_RUNS_5000};
    for (int i = 0; i < 3; i++) {
        add_sc("bitmap.Clone", 4, B_CLONE, kinds3[i], 0);
        add_sc("bitmap.Decode", 4, B_DECODE, kinds3[i], 0);
    }
    add_sc("bitmap.Add", 4, B_ADD, MK_ARRAY_FULLCAP, 5);      /* capacity growth */
    add_sc("bitmap.Add", 4, B_ADD, MK_ARRAY_4096, 7);         /* array -> bitmap */
    add_sc("bitmap.Add", 4, B_ADD, MK_ARRAY_SMALL, 5);        /* already present */
    add_sc("bitmap.Add", 4, B_ADD, MK_RUNS_5000, 7);          /* runs above 4096 */
    add_sc("bitmap.Add", 4, B_ADD, MK_RUNS_4096, 60000);      /* runs at / below 4096 after a remove */
    add_sc("bitmap.Add", 4, B_ADD, MK_BITMAP_5000, 1);
    add_sc("bitmap.Remove", 4, B_REMOVE, MK_BITMAP_4097, 3);  /* bitmap: 4097 -> 4096 stays */
    add_sc("bitmap.Remove", 4, B_REMOVE, MK_BITMAP_4097, 0);
    add_sc("bitmap.Remove", 4, B_REMOVE, MK_RUNS_5000, 100);  /* runs above 4096 */
    add_sc("bitmap.Remove", 4, B_REMOVE, MK_ARRAY_SMALL, 5);
    add_sc("bitmap.Remove", 4, B_REMOVE, MK_RUNS_4096, 5);
    add_sc("bitmap.Remove", 4, B_REMOVE, MK_BITMAP_4096, 3);  /* dense 4096 -> 4095: converts to an array */
    add_sc("bitmap.Remove", 4, B_REMOVE, MK_RUNS_CLEARED, 7); /* run container with fewer than 4096 members */
    add_sc("bitmap.Add", 4, B_ADD, MK_RUNS_CLEARED, 7);
    add_sc("bitmap.Add", 4, B_ADD, MK_BITMAP_4096, 1);
    add_sc("bitmap.Clone", 4, B_CLONE, MK_RUNS_CLEARED, 0);
    add_sc("bitmap.Clone", 4, B_CLONE, MK_ARRAY_4096, 0);
    add_sc("bitmap.Decode", 4, B_DECODE, MK_EMPTY, 0);
    add_sc("bitmap.Decode", 4, B_DECODE, MK_ARRAY_4096, 0);
    static const int kindsR[5] = {MK_EMPTY, MK_ARRAY_SMALL, MK_ARRAY_4095_ODD, MK_BITMAP_5000, MK_RUNS_5000};
    for (int i = 0; i < 5; i++) {
        add_sc("bitmap.AddRange(small)", 4, B_ADDRANGE_SMALL, kindsR[i], 20000);
        add_sc("bitmap.AddRange(large)", 4, B_ADDRANGE_LARGE, kindsR[i], 20000);
        add_sc("bitmap.AddMany", 4, B_ADDMANY, kindsR[i], 30000);
        add_sc("bitmap.RemoveRange", 4, B_REMOVERANGE, kindsR[i], 50);
    }
    static const int kindsB[4] = {MK_ARRAY_SMALL, MK_ARRAY_4096, MK_BITMAP_5000, MK_RUNS_5000};
    static const char *ON[4] = {"bitmap.And", "bitmap.Or", "bitmap.Xor", "bitmap.AndNot"};
    for (int opk = 0; opk < 4; opk++) {
        for (int i = 0; i < 4; i++) {
            for (int j = 0; j < 4; j++) {
                add_sc(ON[opk], 5, opk, kindsB[i], kindsB[j]);
            }
        }
    }
}
static void run_scenario(const scenario *s) {
    scn_name = s->name;
    scn_trigger = "untagged";
    switch (s->fam) {
    case 0:
        scn_dict(s->a, s->b, s->c);
        break;
    case 1:
        scn_pfor(s->a, s->b);
        break;
    case 2:
        scn_float(s->a, s->b);
        break;
    case 3:
        scn_adaptive(s->a, s->b);
        break;
    case 4:
        scn_bitmap_unary(s->a, s->b, (uint32_t)s->c);
        break;
    case 5:
        scn_bitmap_binary(s->a, s->b, s->c);
        break;
    }
}

static vm_report vmr;
static void *site_seen[4096];
static int nsites;

/* one execution; returns number of allocations inside the window (valid when completed) */
static long execute(const scenario *s, size_t k1, size_t k2) {
    K1 = k1;
    K2 = k2;
    vm_policy pol;
    memset(&pol, 0, sizeof pol);
    pol.fill = 0xCD;
    pol.poison_freed = 1;
    long ret = -1;
    struct itimerval it;
    memset(&it, 0, sizeof it);
    it.it_value.tv_sec = 20;
    vm_begin_case(&pol);
    setitimer(ITIMER_REAL, &it, NULL);
    if (SB_ENTER()) {
        run_scenario(s);
        SB_LEAVE();
        ret = (long)win_allocs;
    } else {
        vm_set_fail(0, 0);
        scn_name = s->name;
        vh_fail(s->name, vh_fault_kind == 4 ? "hang" : (vh_fault_kind == 1 && vh_fault_slot == 0) ? "write_past_bound" : "crash", "untagged", "%s [fail allocation #%zu%s of the call]: %s %s%s", scn_desc, k1, k2 ? " and a later one" : "",
                vh_fault_name(), vh_fault_msg, (vh_fault_kind == 1 && vh_fault_slot == 0) ? " (a destination of exactly the advertised maximum size was overrun)" : "");
    }
    it.it_value.tv_sec = 0;
    setitimer(ITIMER_REAL, &it, NULL);
    vm_end_case(&vmr);
    if (ret >= 0) {
        if (vmr.leaks) {
            vh_fail(s->name, "leak", "untagged", "%s [fail allocation #%zu%s of the call]: %zu blocks (%zu bytes) still allocated after every documented free; first leaked block has %zu bytes", scn_desc, k1, k2 ? " and a later one" : "", vmr.leaks, vmr.leaked_bytes, vmr.first_leak_size);
        }
        if (vmr.overflows || vmr.underflows || vmr.bad_frees || vmr.double_frees) {
            vh_fail(s->name, "heap_corruption", "untagged", "%s [fail allocation #%zu]: overflows=%zu underflows=%zu bad_frees=%zu double_frees=%zu (block of %zu bytes)", scn_desc, k1, vmr.overflows, vmr.underflows, vmr.bad_frees, vmr.double_frees, vmr.first_bad_size);
        }
    }
    if (vmr.failed_site) {
        int dup = 0;
        for (int i = 0; i < nsites; i++) {
            dup |= site_seen[i] == vmr.failed_site;
        }
        if (!dup && nsites < 4096) {
            site_seen[nsites++] = vmr.failed_site;
        }
    }
    vh_count("cases", 1);
    vh_count("calls", 1);
    return ret;
}

int main(int argc, char **argv) {
    vh_init(argc, argv);
    vh_sandbox_init();
    vh_gb_init(0, 1 << 20);
    vm_init((size_t)1 << 30);
    build_scenarios();
    vh_infostr("scenarios", "%d", NSC);
    int complete = 1;
    uint64_t maxN = 0;
    if (vh_section_begin("scenarios")) {
        for (int i = 0; i < NSC; i++) {
            if (!vh_case()) {
                continue;
            }
            if (vh_deadline_now()) {
                complete = 0;
                break;
            }
            const scenario *s = &SC[i];
            long N = execute(s, 0, 0);
            if (N < 0) {
                continue;
            }
            if ((uint64_t)N > maxN) {
                maxN = (uint64_t)N;
            }
            vh_count("fault_points", (uint64_t)N);
            /* bound 1 */
            size_t cap1 = (size_t)N;
            if (cap1 > 20000) {
                cap1 = 20000;
            }
            for (size_t k = 1; k <= cap1; k++) {
                /* long allocation sequences (thousands of identical element insertions): every one of the first
                 * 300, then every 97th */
                if (k > 300 && (k % 97) != 0 && k != cap1) {
                    continue;
                }
                execute(s, k, 0);
            }
            /* bound 2 */
            if (vh_thorough) {
                size_t cap2 = (size_t)N > 40 ? 40 : (size_t)N;
                for (size_t k1 = 1; k1 <= cap2; k1++) {
                    for (size_t k2 = k1 + 1; k2 <= cap2 + 1; k2++) {
                        execute(s, k1, k2);
                    }
                }
            }
            char ck[160];
            snprintf(ck, sizeof ck, "%s/%.80s", s->name, scn_desc);
            vh_class(ck, "N=%ld allocations in the call", N);
        }
    }
    vh_flag("all_scenarios_all_single_faults", complete);
    {
        /* allocation call sites (return addresses relative to main) at which a failure was injected */
        static char buf[1900];
        size_t pos = 0;
        buf[0] = 0;
        for (int i = 0; i < nsites && pos + 12 < sizeof buf; i++) {
            pos += (size_t)snprintf(buf + pos, sizeof buf - pos, "%s%lx", i ? "," : "", (unsigned long)((uintptr_t)site_seen[i] - (uintptr_t)main));
        }
        vh_infostr("set:failed_sites", "%s", buf);
    }
    vh_infostr("max_allocations_in_one_call", "%" PRIu64, maxN);
    vh_write_out();
    return 0;
}
