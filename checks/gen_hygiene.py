#!/usr/bin/env python3
"""Generate checks/hygiene_gen.h: macro hygiene of the statement / expression macros of the scalar families and of
the signed helpers.

A function-like macro of the API must behave like the function it stands for whatever its operands are CALLED and
however they are WRITTEN:
  * operand names: every operand position is bound, one at a time, to a local variable named after each identifier of an
    alphabet of common names (a macro-internal local with that name would capture the operand);
  * operand shapes: every rvalue operand (values, widths) is also written as a compound expression whose top-level
    operator binds weaker than anything the macro may put next to it (a + 0, 1 ? a : 0, a | 0, a & ~0) - a macro that
    does not parenthesise its parameter computes something else.
The observable state after the variant call (32 buffer bytes and the two output lvalues) must equal the state after the
neutral call (all operands plain, neutrally named identifiers).
"""
import os

NAMES = ["nbits", "bits", "width", "len", "length", "val", "value", "v", "x", "y", "i", "n", "p", "q", "ptr", "src", "dst",
         "buf", "tmp", "t", "result", "res", "ret", "r", "w", "size", "count", "offset", "pos", "mask", "shift", "sign",
         "encoding", "enc", "encodedLen", "valsize", "valLen", "b", "lo", "hi", "out", "idx", "bit", "word", "slot"]
SHAPES_V = ["{0} + 0", "1 ? {0} : 0", "{0} | 0", "{0} & ~0ULL", "{0} ^ 0"]
SHAPES_W = ["{0} + 0", "1 ? {0} : 0", "{0} | 0", "{0} & 0xff", "{0} ^ 0"]

# kind: P pointer rvalue (uint8_t *), L integer output lvalue, V 64-bit value rvalue, W width rvalue, S signed in/out lvalue
# setup: "put"  = buffer filled with 0xA5, macro writes; "get:<family>" = buffer pre-encoded with the family's put
VALUES = [0, 1, 63, 64, 200, 240, 241, 3000, 16446, 16447, 70000, 4210749, 4210750, (1 << 24) + 5, (1 << 32) + 9, (1 << 36) + 1, (1 << 40) + 3,
          (1 << 44) + 7, (1 << 48) + 5, (1 << 52) + 11, (1 << 56) - 1, (1 << 60) + 13, 1 << 63, (1 << 64) - 1]
MACROS = []


def M(name, ops, setup, wexpr=None, guard=None, values=None, expr=False):
    MACROS.append(dict(name=name, ops=ops, setup=setup, wexpr=wexpr, guard=guard, values=values, expr=expr))


M("varintTaggedPut64FixedWidthQuick_", "PVW", "put", wexpr="(int)varintTaggedLen(V)")
M("varintExternalPutFixedWidthQuick_", "PVW", "put", wexpr="extw(V)")
M("varintExternalPutFixedWidthQuickMedium_", "PVW", "put", wexpr="extw(V)")
M("varintExternalBigEndianPutFixedWidthQuick_", "PVW", "put", wexpr="extw(V)")
M("varintExternalGetQuick_", "PWL", "get:ext", wexpr="extw(V)")
M("varintExternalGetQuickMedium_", "PWL", "get:ext", wexpr="extw(V)")
M("varintExternalBigEndianGetQuick_", "PWL", "get:extbe", wexpr="extw(V)")
M("varintExternalUnsignedEncoding", "VL", "none")
M("varintExternalBigEndianUnsignedEncoding", "VL", "none")
for fam, nz in (("Split", 0), ("SplitFull", 0), ("SplitFullNoZero", 1), ("SplitFull16", 0)):
    g = "V != 0" if nz else None
    M("varint%sLength_" % fam, "LV", "none", guard=g)
    M("varint%sPut_" % fam, "PLV", "put", guard=g)
    M("varint%sGetLen_" % fam, "PL", "get:%s" % fam, guard=g)
    M("varint%sGet_" % fam, "PLL", "get:%s" % fam, guard=g)
    if fam != "SplitFull16":
        M("varint%sReversedPutForward_" % fam, "PLV", "putrev", guard=g)
        M("varint%sReversedPutReversed_" % fam, "PLV", "putrevlast", guard=g)
        M("varint%sReversedGet_" % fam, "PLL", "getrev:%s" % fam, guard=g)
M("varintTaggedLenQuick", "V", "none", expr=True)
M("varintTaggedGet64Quick_", "P", "get:tagged", expr=True)
M("varintTaggedGetLenQuick_", "P", "get:tagged", expr=True)
for fam, nz in (("Split", 0), ("SplitFull", 0), ("SplitFullNoZero", 1), ("SplitFull16", 0)):
    M("varint%sGetLenQuick_" % fam, "P", "get:%s" % fam, expr=True, guard="V != 0" if nz else None)
M("varintPrepareSigned_", "SW", "signed", values="SIGNED_EXT")
M("varintRestoreSigned_", "SW", "signedback", values="SIGNED_EXT")

BIT_MACROS = []


def B(name, ops, setup):
    BIT_MACROS.append(dict(name=name, ops=ops, setup=setup, wexpr=None, guard=None, values="SIGNED_BITS", expr=False))


B("_varintBitstreamPrepareSigned", "SW", "signedbits")
B("_varintBitstreamRestoreSigned", "SW", "signedbitsback")

out = []
emit = out.append


def decl(kind, name, init):
    return {"P": "uint8_t *%s = %s;", "L": "uint64_t %s = %s;", "V": "uint64_t %s = %s;", "W": "int %s = %s;", "S": "int64_t %s = %s;"}[kind] % (name, init)


def gen_macro(m, fn_prefix):
    name, ops = m["name"], m["ops"]
    emit("HYG_ATTR static void %s_%s(void) {" % (fn_prefix, name))
    vals = m["values"] or "HYG_VALUES"
    emit("    for (size_t vi_ = 0; vi_ < sizeof %s / sizeof *%s; vi_++) {" % (vals, vals))
    if vals == "HYG_VALUES":
        emit("        uint64_t V = HYG_VALUES[vi_];")
        emit("        int WV = %s;" % (m["wexpr"] or "0"))
        if m["guard"]:
            emit("        if (!(%s)) { continue; }" % m["guard"])
    else:
        emit("        int64_t SV = %s[vi_].v; int WV = %s[vi_].w; uint64_t V = 0; (void)V;" % (vals, vals))
    emit("        hyg_state ref_, got_;")

    def call(names, shapes):
        # names: operand identifiers per position; shapes: format per position or None
        args = []
        for k, nm, sh in zip(ops, names, shapes):
            args.append("(%s)" % nm if False else (sh.format(nm) if sh else nm))
        if m.get("expr"):
            return "EXPRSTATE.l[0] = (uint64_t)%s(%s);" % (name, ", ".join(args))
        return "%s(%s);" % (name, ", ".join(args))

    def block(names, shapes, state, label):
        emit("        {")
        emit("            hyg_setup_%s(&%s, V, WV);" % (m["setup"].split(":")[0], state))
        if m["setup"].startswith("getrev"):
            emit("            hyg_fillrev_%s(&%s, V);" % (m["setup"].split(":")[1], state))
        elif m["setup"].startswith("get"):
            emit("            hyg_fill_%s(&%s, V);" % (m["setup"].split(":")[1], state))
        seenL = 0
        for k, nm in zip(ops, names):
            if k == "P":
                init = "%s.b + %s" % (state, "HYG_REVPOS" if m["setup"] in ("putrevlast",) or m["setup"].startswith("getrev") else "8")
                emit("            " + decl("P", nm, init))
            elif k == "L":
                emit("            " + decl("L", nm, "0xEEEEEEEEEEEEEEEEULL"))
            elif k == "V":
                emit("            " + decl("V", nm, "V"))
            elif k == "W":
                emit("            " + decl("W", nm, "WV"))
            elif k == "S":
                emit("            " + decl("S", nm, "SV"))
        emit("            " + call(names, shapes).replace("EXPRSTATE", state))
        li = 0
        for k, nm in zip(ops, names):
            if k in "LS":
                emit("            %s.l[%d] = (uint64_t)%s;" % (state, li, nm))
                li += 1
        if label is not None:
            emit("            hyg_compare(\"%s\", \"%s\", &ref_, &got_, V);" % (name, label.replace('"', "'")))
        emit("        }")

    neutral = ["zq%d_" % i for i in range(len(ops))]
    block(neutral, [None] * len(ops), "ref_", None)
    for pos, k in enumerate(ops):
        for nm in NAMES:
            names = list(neutral)
            names[pos] = nm
            block(names, [None] * len(ops), "got_", "operand %d named '%s'" % (pos + 1, nm))
        shapes = SHAPES_V if k == "V" else SHAPES_W if k == "W" else []
        for sh in shapes:
            sl = [None] * len(ops)
            sl[pos] = sh
            block(neutral, sl, "got_", "operand %d written as '%s'" % (pos + 1, sh.format("a")))
    emit("        vh_count(\"calls\", %d);" % (1 + sum(len(NAMES) + (5 if k in "VW" else 0) for k in ops)))
    emit("    }")
    # compile-time constant operands (__builtin_constant_p paths, constant folding): the value operand as a literal
    if "V" in ops and not m["values"]:
        pos = ops.index("V")
        for v in VALUES:
            emit("    {")
            emit("        uint64_t V = %dULL;" % v)
            emit("        int WV = %s;" % (m["wexpr"] or "0"))
            emit("        hyg_state ref_, got_;")
            if m["guard"]:
                emit("        if (%s) {" % m["guard"])
            else:
                emit("        {")
            block(neutral, [None] * len(ops), "ref_", None)
            sl = [None] * len(ops)
            sl[pos] = "%dULL" % v
            block(neutral, sl, "got_", "operand %d written as the literal %dULL" % (pos + 1, v))
            emit("        }")
            emit("    }")
    emit("}")
    emit("")


emit("/* GENERATED by checks/gen_hygiene.py - do not edit */")
emit("/* name capture and operator precedence are source-level properties: the generated functions are compiled without")
emit(" * optimisation in every configuration (they are thousands of straight-line blocks; optimising them costs minutes) */")
emit("#if defined(__clang__)")
emit("#define HYG_ATTR __attribute__((optnone, noinline, no_sanitize(\"address\", \"memory\", \"thread\")))")
emit("#else")
emit("#define HYG_ATTR __attribute__((optimize(\"O0\"), noinline))")
emit("#endif")
emit("static const uint64_t HYG_VALUES[] = {%s};" % ", ".join("%dULL" % v for v in VALUES))
emit("#ifdef HYG_SCALAR")
for m in MACROS:
    gen_macro(m, "hyg")
emit("static void hygiene_scalar(void) {")
for m in MACROS:
    emit("    hyg_%s();" % m["name"])
emit("    vh_class(\"macro-hygiene/scalar\", \"%d macros x %d operand names and 5 operand shapes\");" % (len(MACROS), len(NAMES)))
emit("}")
emit("#endif")
emit("#ifdef HYG_BITSTREAM")
for m in BIT_MACROS:
    gen_macro(m, "hyg")
emit("static void hygiene_bitstream(void) {")
for m in BIT_MACROS:
    emit("    hyg_%s();" % m["name"])
emit("    vh_class(\"macro-hygiene/bitstream\", \"%d macros x %d operand names and 5 operand shapes\");" % (len(BIT_MACROS), len(NAMES)))
emit("}")
emit("#endif")
here = os.path.dirname(os.path.abspath(__file__))
with open(os.path.join(here, "hygiene_gen.h"), "w") as f:
    f.write("\n".join(out) + "\n")
print(len(out), "lines,", len(MACROS) + len(BIT_MACROS), "macros")
