/* packed.c - C09: packed bit arrays.
 *  (1) element isolation (E-enum): for every instantiation, every element position relative to slot
 *      boundaries x value alphabet x background: whole storage (with guard slots) must equal a bit-array
 *      model after Set/SetIncr/SetHalf, Get must return the model value for every element, and in a
 *      second run the storage is placed so that the slots the addressed element occupies end at a
 *      PROT_NONE page (and, third run, begin right after one): touching any other slot faults.
 *  (2) sorted-array semantics (E-bfs): closure of the state space of sorted multisets of <= 7 elements
 *      over a 5-value alphabet under InsertSorted / order-preserving Insert / Delete / DeleteMember,
 *      observers Member / BinarySearch / Get compared with a plain sorted array.
 */
#include "vh.h"
#include <sys/mman.h>

#include "packed_inst.h"

static uint64_t gcd_u(uint64_t a, uint64_t b) {
    while (b) {
        uint64_t t = a % b;
        a = b;
        b = t;
    }
    return a;
}

/* model: little-endian bit array over bytes */
static inline uint64_t model_get(const uint8_t *m, uint64_t bit, int w) {
    uint64_t v = 0;
    for (int i = 0; i < w; i++) {
        uint64_t g = bit + (uint64_t)i;
        v |= (uint64_t)((m[g >> 3] >> (g & 7)) & 1) << i;
    }
    return v;
}
static inline void model_set(uint8_t *m, uint64_t bit, int w, uint64_t v) {
    for (int i = 0; i < w; i++) {
        uint64_t g = bit + (uint64_t)i;
        m[g >> 3] = (uint8_t)((m[g >> 3] & ~(1u << (g & 7))) | (((v >> i) & 1) << (g & 7)));
    }
}

static char cur_desc[256];
static const char *cur_op = "";
static const pinst *cur_inst;

static const char *trigger_for(const pinst *p) {
    (void)p;
    return "untagged";
}

#define PFAIL(api, kind, ...) vh_fail((api), (kind), trigger_for(cur_inst), __VA_ARGS__)

#define PAD 64 /* guard bytes each side of the storage in the plain buffer */
static uint8_t PLAIN[PAD + 4096 + PAD], MODEL[PAD + 4096 + PAD];

static size_t value_alphabet(int w, uint64_t *vals) {
    uint64_t mask = w == 64 ? UINT64_MAX : ((1ULL << w) - 1);
    size_t k = 0;
    if (w <= (vh_thorough ? 12 : 8)) {
        for (uint64_t v = 0; v <= mask; v++) {
            vals[k++] = v;
        }
        return k;
    }
    vals[k++] = 0;
    vals[k++] = 1;
    vals[k++] = mask;
    vals[k++] = mask - 1;
    vals[k++] = 0x5555555555555555ULL & mask;
    vals[k++] = 0xAAAAAAAAAAAAAAAAULL & mask;
    for (int b = 0; b < w; b++) {
        vals[k++] = 1ULL << b;
        vals[k++] = mask & ~(1ULL << b);
    }
    return k;
}

static void isolation(const pinst *p) {
    int w = p->width, S = p->slotbits, SB = S / 8;
    uint64_t lcm = (uint64_t)w * (uint64_t)S / gcd_u((uint64_t)w, (uint64_t)S);
    uint32_t N = (uint32_t)(3 * lcm / (uint64_t)w + 2);
    size_t nslots = ((size_t)N * (size_t)w + (size_t)S - 1) / (size_t)S;
    size_t nbytes = nslots * (size_t)SB;
    if (nbytes > 4096) {
        fprintf(stderr, "storage too large\n");
        exit(3);
    }
    static uint64_t vals[5000];
    size_t nv = value_alphabet(w, vals);
    static const uint8_t bgs[4] = {0x00, 0xff, 0x55, 0xaa};
    uint64_t mask = (1ULL << w) - 1;
    for (uint32_t i = 0; i < N; i++) {
        if (!vh_case()) {
            continue;
        }
        uint64_t bit = (uint64_t)i * (uint64_t)w;
        size_t firstslot = (size_t)(bit / (uint64_t)S), lastslot = (size_t)((bit + (uint64_t)w - 1) / (uint64_t)S);
        for (int bg = 0; bg < 4; bg++) {
            for (size_t vi = 0; vi < nv; vi++) {
                uint64_t v = vals[vi];
                /* --- run A: plain buffer, full-storage comparison ------------------------------- */
                memset(PLAIN, bgs[bg], sizeof PLAIN);
                memset(MODEL, bgs[bg], sizeof MODEL);
                uint8_t *st = PLAIN + PAD, *mo = MODEL + PAD;
                snprintf(cur_desc, sizeof cur_desc, "%s: element %u of %u value 0x%" PRIx64 " background %02x", p->tag, i, N, v, bgs[bg]);
                cur_op = "Set";
                if (SB_ENTER()) {
                    p->set(st, i, v);
                    SB_LEAVE();
                } else {
                    PFAIL("packed.Set", vh_fault_name(), "%s %s", cur_desc, vh_fault_msg);
                    continue;
                }
                model_set(mo, bit, w, v);
                if (memcmp(PLAIN, MODEL, sizeof PLAIN)) {
                    size_t at = 0;
                    while (PLAIN[at] == MODEL[at]) {
                        at++;
                    }
                    PFAIL("packed.Set", "neighbour_corrupted", "%s: storage byte %ld is %02x, model %02x", cur_desc, (long)at - PAD, PLAIN[at], MODEL[at]);
                    memcpy(PLAIN, MODEL, sizeof PLAIN);
                }
                vh_count("calls", 1);
                /* Get of every element equals the model */
                if (vi % 7 == 0 || nv < 64) {
                    for (uint32_t j = 0; j < N; j++) {
                        uint64_t g = p->get(st, j), mg = model_get(mo, (uint64_t)j * (uint64_t)w, w);
                        if (g != mg) {
                            PFAIL("packed.Get", "wrong_value", "%s: Get(%u) = 0x%" PRIx64 " model 0x%" PRIx64, cur_desc, j, g, mg);
                            break;
                        }
                    }
                    vh_count("calls", N);
                } else {
                    uint64_t g = p->get(st, i);
                    if (g != v) {
                        PFAIL("packed.Get", "wrong_value", "%s: Get(%u) = 0x%" PRIx64, cur_desc, i, g);
                    }
                    vh_count("calls", 1);
                }
                /* SetIncr (non-negative, result in range) and SetHalf on the same element */
                if (vi + 1 < nv) {
                    uint64_t target = vals[vi + 1] & mask;
                    if (target >= v) {
                        int64_t by = (int64_t)(target - v);
                        p->incr(st, i, by);
                        model_set(mo, bit, w, target);
                        if (memcmp(PLAIN, MODEL, sizeof PLAIN)) {
                            PFAIL("packed.SetIncr", "neighbour_corrupted", "%s: += %" PRId64 " -> storage differs from model (element reads 0x%" PRIx64 ")", cur_desc, by, p->get(st, i));
                            memcpy(PLAIN, MODEL, sizeof PLAIN);
                        }
                        vh_count("calls", 1);
                        v = target;
                    }
                }
                p->half(st, i);
                model_set(mo, bit, w, v / 2);
                if (memcmp(PLAIN, MODEL, sizeof PLAIN)) {
                    PFAIL("packed.SetHalf", "neighbour_corrupted", "%s: halve 0x%" PRIx64 " -> storage differs from model (element reads 0x%" PRIx64 ")", cur_desc, v, p->get(st, i));
                }
                vh_count("calls", 1);
                /* --- run B/C: guard pages around the slots the element occupies ------------------ */
                if (bg < 2 && (vi < 6 || vi + 2 >= nv)) {
                    for (int side = 0; side < 2; side++) {
                        uint8_t *base;
                        if (side == 0) {
                            /* last occupied slot ends at the trailing guard page */
                            uint8_t *g = vh_gb_get(0, (lastslot + 1) * (size_t)SB, bgs[bg]);
                            base = g;
                        } else {
                            /* first occupied slot starts right after the leading guard page */
                            uint8_t *g = vh_gb_get_lo(0, (nslots - firstslot) * (size_t)SB + 64, bgs[bg]);
                            base = g - firstslot * (size_t)SB;
                        }
                        static const char *OPN[4] = {"packed.Set", "packed.Get", "packed.SetIncr", "packed.SetHalf"};
                        for (int opi = 0; opi < 4; opi++) {
                            uint64_t got = 0;
                            if (SB_ENTER()) {
                                if (opi == 0) {
                                    p->set(base, i, vals[vi]);
                                } else if (opi == 1) {
                                    got = p->get(base, i);
                                } else if (opi == 2) {
                                    p->incr(base, i, 0);
                                } else {
                                    p->half(base, i);
                                }
                                SB_LEAVE();
                                if (opi == 1 && got != vals[vi]) {
                                    PFAIL(OPN[opi], "wrong_value", "%s (guarded storage): Get = 0x%" PRIx64, cur_desc, got);
                                }
                            } else {
                                PFAIL(OPN[opi], "touches_foreign_slot", "%s: element occupies slots %zu..%zu but the %s slot was accessed [%s off=%ld]", cur_desc, firstslot, lastslot,
                                      side == 0 ? "following" : "preceding", vh_fault_name(), vh_fault_off);
                            }
                            vh_count("calls", 1);
                        }
                    }
                }
                vh_count("cases", 1);
            }
        }
        char ck[96];
        snprintf(ck, sizeof ck, "isolation/w%d/slot%d/%s/startbit%u/%s", w, S, p->compact ? "compact" : "default", (unsigned)(bit % (uint64_t)S), firstslot == lastslot ? "one-slot" : "two-slot");
        vh_class(ck, "%s element %u", p->tag, i);
    }
}

/* ---------------------------------------------------------------- far elements
 * The element index is a PACKED_LEN_TYPE (uint32_t by default, uint8_t/uint16_t under PACK_MAX_ELEMENTS) while the slot
 * index and the bit offset grow faster than the index when a value is wider than a slot.  Storage is a lazily
 * committed (MAP_NORESERVE) mapping large enough for element 2^32-1 of the widest instance; before each call no page
 * of it is accessible except the window around the addressed slots (the rest is a PROT_NONE reservation), so (a) the
 * window must equal the model and (b) any access to another slot of the whole storage faults and is reported. */
#define FAR_MAP (((size_t)16 << 30) + (1 << 16))
static uint8_t *far_map;
static size_t far_index_alphabet(const pinst *p, uint64_t *out) {
    uint64_t w = (uint64_t)p->width, S = (uint64_t)p->slotbits;
    uint64_t cand[80];
    size_t k = 0;
    static const int KS[6] = {8, 16, 24, 31, 32, 15};
    for (int i = 0; i < 6; i++) {
        uint64_t b = 1ULL << KS[i];
        for (int d = -1; d <= 1; d++) {
            cand[k++] = b + (uint64_t)d;               /* the index itself crosses 2^k */
            cand[k++] = b / w + (uint64_t)d;           /* the bit offset crosses 2^k */
            cand[k++] = (b * S) / w + (uint64_t)d;     /* the slot index crosses 2^k */
            cand[k++] = (b * 8) / w + (uint64_t)d;     /* the byte offset crosses 2^k */
        }
    }
    cand[k++] = (uint64_t)p->maxel - 1;
    cand[k++] = (uint64_t)p->maxel - 2;
    cand[k++] = (uint64_t)p->maxel / 2 + 1;
    size_t n = 0;
    for (size_t i = 0; i < k; i++) {
        uint64_t x = cand[i];
        if (x >= (uint64_t)p->maxel || x < 40 || (x * w + w) / 8 + 64 >= FAR_MAP) {
            continue;
        }
        int dup = 0;
        for (size_t j = 0; j < n; j++) {
            dup |= out[j] == x;
        }
        if (!dup) {
            out[n++] = x;
        }
    }
    return n;
}
static void far_elements(const pinst *p) {
    int w = p->width, S = p->slotbits, SB = S / 8;
    uint64_t idx[96];
    size_t ni = far_index_alphabet(p, idx);
    uint64_t mask = (1ULL << w) - 1;
    for (size_t ii = 0; ii < ni; ii++) {
        if (!vh_case()) {
            continue;
        }
        uint64_t i = idx[ii], bit = i * (uint64_t)w;
        size_t firstslot = (size_t)(bit / (uint64_t)S), lastslot = (size_t)((bit + (uint64_t)w - 1) / (uint64_t)S);
        size_t wlo = (firstslot - 1) * (size_t)SB, whi = (lastslot + 2) * (size_t)SB, wl = whi - wlo;
        /* only the pages of the window are accessible; any access to another slot of the storage faults */
        size_t plo = wlo & ~(size_t)4095, phi = (whi + 4095) & ~(size_t)4095;
        if (mprotect(far_map + plo, phi - plo, PROT_READ | PROT_WRITE) != 0) {
            vh_flag("far_storage_mapped", 0);
            continue;
        }
        uint64_t vv[3] = {mask, 0x5555555555555555ULL & mask, 1};
        for (int bg = 0; bg < 2; bg++) {
            for (int vi = 0; vi < 3; vi++) {
                for (int opi = 0; opi < 4; opi++) { /* Set, Get of independently written bits, SetIncr, SetHalf */
                    static const char *OPN[4] = {"packed.Set", "packed.Get", "packed.SetIncr", "packed.SetHalf"};
                    uint64_t v = vv[vi], expect = v;
                    uint8_t model[64];
                    memset(far_map + wlo, bg ? 0xff : 0x00, wl);
                    memset(model, bg ? 0xff : 0x00, wl);
                    uint64_t rel = bit - (uint64_t)wlo * 8;
                    snprintf(cur_desc, sizeof cur_desc, "%s: element %" PRIu64 " value 0x%" PRIx64 " background %02x", p->tag, i, v, bg ? 0xff : 0);
                    if (opi != 0) {
                        model_set(model, rel, w, v);
                        memcpy(far_map + wlo, model, wl);
                    }
                    uint64_t got = 0;
                    if (SB_ENTER()) {
                        if (opi == 0) {
                            p->set(far_map, i, v);
                            model_set(model, rel, w, v);
                        } else if (opi == 1) {
                            got = p->get(far_map, i);
                        } else if (opi == 2) {
                            int64_t by = (int64_t)(mask - v);
                            p->incr(far_map, i, by);
                            model_set(model, rel, w, mask);
                        } else {
                            p->half(far_map, i);
                            model_set(model, rel, w, v / 2);
                        }
                        SB_LEAVE();
                    } else {
                        uint8_t *fa = (uint8_t *)vh_fault_addr;
                        if (fa >= far_map && fa < far_map + FAR_MAP) {
                            PFAIL(OPN[opi], "touches_foreign_slot", "%s: element lies in storage bytes %zu..%zu but storage byte %zu was accessed", cur_desc, wlo + (size_t)SB, whi - (size_t)SB - 1, (size_t)(fa - far_map));
                        } else {
                            PFAIL(OPN[opi], vh_fault_name(), "%s %s", cur_desc, vh_fault_msg);
                        }
                    }
                    vh_count("calls", 1);
                    vh_count("cases", 1);
                    if (opi == 1 && got != expect) {
                        PFAIL(OPN[opi], "wrong_value", "%s: Get = 0x%" PRIx64, cur_desc, got);
                    }
                    if (memcmp(far_map + wlo, model, wl)) {
                        PFAIL(OPN[opi], "neighbour_corrupted", "%s: the slots at the element's position differ from the model", cur_desc);
                    }
                }
            }
        }
        madvise(far_map + plo, phi - plo, MADV_DONTNEED);
        mprotect(far_map + plo, phi - plo, PROT_NONE);
        vh_count("windows", 1);
        char ck[96];
        snprintf(ck, sizeof ck, "far/w%d/slot%d/%s/index>=2^%d", w, S, p->maxel <= 255 ? "len8" : p->maxel <= 65535 ? "len16" : p->maxel <= 4294967295ULL ? "len32" : "len64", 63 - __builtin_clzll(i));
        vh_class(ck, "%s element %" PRIu64, p->tag, i);
    }
}

/* long sorted arrays: the sorted-array operations near the top of the index range of the narrow length types (and
 * 70000 elements for the default type), against a plain array */
static void sorted_long(const pinst *p) {
    int w = p->width;
    uint64_t mask = (1ULL << w) - 1;
    uint32_t L = p->maxel < 70000 ? (uint32_t)p->maxel - 2 : 70000;
    uint64_t *ref = malloc(sizeof(uint64_t) * ((size_t)L + 4));
    uint8_t *st = far_map; /* zero pages; big enough */
    size_t bytes = ((size_t)(L + 4) * (size_t)w + 7) / 8 + 64;
    size_t span = (bytes + 8191) & ~(size_t)4095;
    mprotect(st, span, PROT_READ | PROT_WRITE);
    memset(st, 0, bytes);
    /* ascending values with gaps (so that absent values exist), saturating at the mask */
    for (uint32_t i = 0; i < L; i++) {
        uint64_t v = mask >= 2ULL * L + 3 ? 2ULL * i + 1 : (uint64_t)i * mask / (L + 1);
        ref[i] = v;
        p->set(st, i, v);
    }
    uint32_t len = L;
    snprintf(cur_desc, sizeof cur_desc, "%s: sorted array of %u elements", p->tag, L);
    /* members / non-members near both ends and the middle */
    uint32_t pos[6] = {0, 1, L / 2, L - 2, L - 1, (uint32_t)((uint64_t)L * 2 / 3)};
    for (int k = 0; k < 6; k++) {
        uint64_t v = ref[pos[k]];
        int64_t m = p->member(st, len, v);
        if (m < 0 || ref[m] != v) {
            PFAIL("packed.Member", "model_divergence", "%s: Member(0x%" PRIx64 ") = %" PRId64 ", value is at %u", cur_desc, v, m, pos[k]);
        }
        uint32_t b = p->bsearch(st, len, v);
        if (b > len || (b < len && ref[b] < v) || (b > 0 && ref[b - 1] > v)) {
            PFAIL("packed.BinarySearch", "model_divergence", "%s: BinarySearch(0x%" PRIx64 ") = %u", cur_desc, v, b);
        }
        vh_count("calls", 2);
    }
    /* one insertion at the top, one in the upper third, then delete them again; compare all elements each time */
    uint64_t ins[2] = {ref[L - 1], ref[(uint64_t)L * 2 / 3]};
    for (int k = 0; k < 2 && len + 1 <= p->maxel - 1; k++) {
        p->insert_sorted(st, len, ins[k]);
        /* model */
        uint32_t at = 0;
        while (at < len && ref[at] < ins[k]) {
            at++;
        }
        memmove(ref + at + 1, ref + at, sizeof(uint64_t) * (len - at));
        ref[at] = ins[k];
        len++;
        for (uint32_t i = 0; i < len; i++) {
            uint64_t g = p->get(st, i);
            if (g != ref[i]) {
                PFAIL("packed.InsertSorted", "model_divergence", "%s: after InsertSorted(0x%" PRIx64 ") element %u reads 0x%" PRIx64 ", model 0x%" PRIx64, cur_desc, ins[k], i, g, ref[i]);
                break;
            }
        }
        vh_count("calls", 1 + len);
    }
    for (int k = 0; k < 2 && len > 2; k++) {
        int r = p->del_member(st, len, ins[k]);
        uint32_t at = 0;
        while (at < len && ref[at] != ins[k]) {
            at++;
        }
        if (at < len) {
            memmove(ref + at, ref + at + 1, sizeof(uint64_t) * (len - at - 1));
            len--;
        }
        if (!r) {
            PFAIL("packed.DeleteMember", "model_divergence", "%s: DeleteMember(0x%" PRIx64 ") reported absent", cur_desc, ins[k]);
        }
        for (uint32_t i = 0; i < len; i++) {
            uint64_t g = p->get(st, i);
            if (g != ref[i]) {
                PFAIL("packed.DeleteMember", "model_divergence", "%s: after DeleteMember(0x%" PRIx64 ") element %u reads 0x%" PRIx64 ", model 0x%" PRIx64, cur_desc, ins[k], i, g, ref[i]);
                break;
            }
        }
        vh_count("calls", 1 + len);
    }
    vh_count("cases", 1);
    madvise(st, span, MADV_DONTNEED);
    mprotect(st, span, PROT_NONE);
    free(ref);
    char ck[64];
    snprintf(ck, sizeof ck, "sorted-long/w%d/slot%d/len%u", w, p->slotbits, L);
    vh_class(ck, "%s", p->tag);
}

/* duplicate runs in medium-sized sorted arrays: an ascending array of len elements with ONE run of r equal values
 * starting at every index s (and, for narrow widths, the saturated tail run as a second one); Member must return the FIRST
 * equal element and BinarySearch the lower bound, for the run's value, both neighbours and an absent value - any probe
 * that lands inside the run must still walk back to its start */
static void sorted_dups(const pinst *p) {
    int w = p->width;
    uint64_t mask = w >= 64 ? ~0ULL : (1ULL << w) - 1;
    static const uint32_t LENS[] = {16, 31, 32, 33, 47, 48, 49, 63, 64, 65, 100, 128, 129, 160};
    static const uint32_t RUNS[] = {2, 3, 16, 17, 33};
    static uint64_t ref[200];
    uint8_t *st = calloc(1, 4096);
    for (size_t li = 0; li < sizeof LENS / sizeof *LENS; li++) {
        uint32_t len = LENS[li];
        if ((uint64_t)len + 1 >= p->maxel) {
            continue;
        }
        for (size_t ri = 0; ri < sizeof RUNS / sizeof *RUNS; ri++) {
            uint32_t r = RUNS[ri];
            for (uint32_t s0 = 0; s0 + r <= len; s0++) {
                for (uint32_t i = 0; i < len; i++) {
                    uint64_t b = 2ULL * i + 1 > mask ? mask : 2ULL * i + 1; /* odd values: even ones are absent */
                    ref[i] = b;
                }
                for (uint32_t i = s0; i < s0 + r; i++) {
                    ref[i] = ref[s0];
                }
                memset(st, 0, 4096);
                for (uint32_t i = 0; i < len; i++) {
                    p->set(st, i, ref[i]);
                }
                uint64_t qs[5] = {ref[s0], s0 ? ref[s0 - 1] : 0, s0 + r < len ? ref[s0 + r] : mask, ref[s0] ? ref[s0] - 1 : 0, ref[len - 1]};
                for (int q = 0; q < 5; q++) {
                    uint64_t v = qs[q];
                    uint32_t lb = 0;
                    while (lb < len && ref[lb] < v) {
                        lb++;
                    }
                    int64_t mem = (lb < len && ref[lb] == v) ? (int64_t)lb : -1;
                    uint32_t gb = p->bsearch(st, len, v);
                    int64_t gm = p->member(st, len, v);
                    if (gb != lb || gm != mem) {
                        PFAIL("packed.Member/BinarySearch", "wrong_result", "%s: sorted array of %u elements with %u equal values 0x%" PRIx64 " at %u..%u: search 0x%" PRIx64 ": BinarySearch=%u want %u, Member=%" PRId64 " want %" PRId64, p->tag,
                              len, r, ref[s0], s0, s0 + r - 1, v, gb, lb, gm, mem);
                    }
                    vh_count("calls", 2);
                }
                vh_count("cases", 1);
            }
        }
        char ck[64];
        snprintf(ck, sizeof ck, "sorted-dups/w%d/slot%d/len%u", w, p->slotbits, len);
        vh_class(ck, "%s", p->tag);
    }
    free(st);
}

/* giant sorted arrays (thorough tier, where VERIF_GIANT is set): more than 2^32 BITS of elements above the insertion
 * point, for the whole-slot widths whose layout is a plain array of slots */
static void giant_insert(const pinst *p) {
    int w = p->width;
    uint64_t L = (((uint64_t)1 << 32) / (uint64_t)w) + 3;
    size_t bytes = (size_t)((L + 2) * (uint64_t)w / 8) + 64;
    uint8_t *st = mmap(NULL, bytes, PROT_READ | PROT_WRITE, MAP_PRIVATE | MAP_ANONYMOUS | MAP_NORESERVE, -1, 0);
    if (st == MAP_FAILED) {
        vh_flag("giant_insert_mapped", 0);
        return;
    }
    uint64_t mask = w == 64 ? UINT64_MAX : ((1ULL << w) - 1);
    /* ascending, many duplicates: value of element i is (i >> 13) + 1, capped */
    for (uint64_t i = 0; i < L; i++) {
        uint64_t v = ((i >> 13) + 1) & mask;
        if (((i >> 13) + 1) > mask) {
            v = mask;
        }
        memcpy(st + (size_t)(i * (uint64_t)w / 8), &v, (size_t)w / 8);
    }
    memset(st + (size_t)(L * (uint64_t)w / 8), 0xA5, 64);
    snprintf(cur_desc, sizeof cur_desc, "%s: sorted array of %" PRIu64 " elements (%" PRIu64 " bits)", p->tag, L, L * (uint64_t)w);
    if (SB_ENTER()) {
        p->insert_sorted(st, L, 0); /* goes to position 0: every element moves up by one */
        SB_LEAVE();
    } else {
        PFAIL("packed.InsertSorted", vh_fault_name(), "%s %s", cur_desc, vh_fault_msg);
        munmap(st, bytes);
        return;
    }
    uint64_t bad = 0, firstbad = 0;
    for (uint64_t i = 0; i <= L; i++) {
        uint64_t want = i == 0 ? 0 : (((i - 1) >> 13) + 1 > mask ? mask : (((i - 1) >> 13) + 1) & mask), got = 0;
        memcpy(&got, st + (size_t)(i * (uint64_t)w / 8), (size_t)w / 8);
        if (got != want) {
            if (!bad) {
                firstbad = i;
            }
            bad++;
        }
    }
    uint64_t lastv = p->get(st, L);
    int64_t mem = p->member(st, L + 1, (((L - 1) >> 13) + 1 > mask ? mask : (((L - 1) >> 13) + 1) & mask));
    if (bad || mem < 0) {
        PFAIL("packed.InsertSorted", "model_divergence", "%s: after InsertSorted(0) %" PRIu64 " elements differ from the model (first at index %" PRIu64 "), last element reads 0x%" PRIx64 ", Member(last value) = %" PRId64, cur_desc, bad, firstbad,
              lastv, mem);
    }
    for (int k = 0; k < 8; k++) {
        if (st[(size_t)((L + 1) * (uint64_t)w / 8) + (size_t)k] != 0xA5) {
            PFAIL("packed.InsertSorted", "neighbour_corrupted", "%s: bytes after the array changed", cur_desc);
            break;
        }
    }
    vh_count("calls", 3);
    vh_count("cases", 1);
    char ck[64];
    snprintf(ck, sizeof ck, "giant-insert/w%d", w);
    vh_class(ck, "%s", cur_desc);
    munmap(st, bytes);
}

/* ---------------------------------------------------------------- sorted semantics: BFS to closure */
#define MAXLEN 7
typedef struct {
    uint8_t len;
    uint8_t e[MAXLEN]; /* indices into the value alphabet, ascending */
} sstate;

static void sorted_bfs(const pinst *p) {
    int w = p->width, SB = p->slotbits / 8;
    uint64_t mask = (1ULL << w) - 1;
    uint64_t A[5] = {0, 1, mask / 2, mask - 1, mask};
    int na = 5;
    if (w == 1) {
        A[1] = 1;
        na = 2;
    } else if (w == 2) {
        A[2] = 2;
        A[3] = 3;
        na = 4;
    }
    /* storage: exactly the slots of MAXLEN+1 elements, ending at a guard page */
    size_t nslots = ((size_t)(MAXLEN + 1) * (size_t)w + (size_t)p->slotbits - 1) / (size_t)p->slotbits;
    size_t nbytes = nslots * (size_t)SB;
    /* enumerate states by BFS; state key = base-6 number */
    static uint8_t seen[300000];
    memset(seen, 0, sizeof seen);
    static sstate queue[4000];
    size_t qh = 0, qt = 0;
    sstate s0 = {0, {0}};
    queue[qt++] = s0;
    seen[0] = 1;
    uint64_t nstates = 1, ntrans = 0;
    while (qh < qt) {
        sstate s = queue[qh++];
        /* operations: InsertSorted(v), Insert(pos,v) order preserving, Delete(pos), DeleteMember(v) */
        for (int kind = 0; kind < 4; kind++) {
            int na_or_pos = (kind == 2) ? s.len : na;
            for (int a = 0; a < na_or_pos; a++) {
                for (int pos = 0; pos <= (kind == 1 ? s.len : 0); pos++) {
                    if ((kind == 0 || kind == 1) && s.len >= MAXLEN) {
                        continue;
                    }
                    if (kind == 1) {
                        /* position must keep the order */
                        if ((pos > 0 && s.e[pos - 1] > a) || (pos < s.len && s.e[pos] < a)) {
                            continue;
                        }
                    }
                    /* build the real array from the state */
                    uint8_t *st = vh_gb_get(0, nbytes, 0xA5);
                    for (int i = 0; i < s.len; i++) {
                        p->set(st, (uint32_t)i, A[s.e[i]]);
                    }
                    /* reference */
                    uint8_t ref[MAXLEN + 1];
                    int rl = s.len;
                    memcpy(ref, s.e, MAXLEN);
                    char opd[64];
                    int ret = -1, want = -1;
                    const char *api = "";
                    if (SB_ENTER()) {
                        if (kind == 0) {
                            api = "packed.InsertSorted";
                            snprintf(opd, sizeof opd, "InsertSorted(0x%" PRIx64 ")", A[a]);
                            p->insert_sorted(st, (uint32_t)s.len, A[a]);
                            int q = 0;
                            while (q < rl && ref[q] < a) {
                                q++;
                            }
                            memmove(ref + q + 1, ref + q, (size_t)(rl - q));
                            ref[q] = (uint8_t)a;
                            rl++;
                        } else if (kind == 1) {
                            api = "packed.Insert";
                            snprintf(opd, sizeof opd, "Insert(pos %d, 0x%" PRIx64 ")", pos, A[a]);
                            p->insert(st, (uint32_t)s.len, (uint32_t)pos, A[a]);
                            memmove(ref + pos + 1, ref + pos, (size_t)(rl - pos));
                            ref[pos] = (uint8_t)a;
                            rl++;
                        } else if (kind == 2) {
                            api = "packed.Delete";
                            snprintf(opd, sizeof opd, "Delete(pos %d)", a);
                            p->del(st, (uint32_t)s.len, (uint32_t)a);
                            memmove(ref + a, ref + a + 1, (size_t)(rl - a - 1));
                            rl--;
                        } else {
                            api = "packed.DeleteMember";
                            snprintf(opd, sizeof opd, "DeleteMember(0x%" PRIx64 ")", A[a]);
                            ret = p->del_member(st, (uint32_t)s.len, A[a]);
                            int q = 0;
                            while (q < rl && ref[q] != a) {
                                q++;
                            }
                            want = q < rl;
                            if (want) {
                                memmove(ref + q, ref + q + 1, (size_t)(rl - q - 1));
                                rl--;
                            }
                        }
                        SB_LEAVE();
                    } else {
                        char hs[64] = "";
                        for (int i = 0; i < s.len; i++) {
                            snprintf(hs + strlen(hs), sizeof hs - strlen(hs), "%d ", s.e[i]);
                        }
                        PFAIL("packed.sorted", vh_fault_kind == 1 ? "touches_foreign_slot" : vh_fault_name(), "%s: state [%s] op kind %d arg %d: storage of %d elements overrun", p->tag, hs, kind, a, MAXLEN + 1);
                        continue;
                    }
                    ntrans++;
                    vh_count("calls", 1);
                    char hs[96] = "";
                    for (int i = 0; i < s.len; i++) {
                        snprintf(hs + strlen(hs), sizeof hs - strlen(hs), "%s0x%" PRIx64, i ? "," : "", A[s.e[i]]);
                    }
                    if (kind == 3 && ret != want) {
                        PFAIL(api, "wrong_result", "%s: [%s] %s returned %d want %d", p->tag, hs, opd, ret, want);
                    }
                    /* contents */
                    int bad = 0;
                    for (int i = 0; i < rl; i++) {
                        if (p->get(st, (uint32_t)i) != A[ref[i]]) {
                            bad = 1;
                        }
                    }
                    if (bad) {
                        PFAIL(api, "model_divergence", "%s: [%s] %s: contents differ from the reference sorted array", p->tag, hs, opd);
                        continue;
                    }
                    /* observers on the new state */
                    for (int q = 0; q < na; q++) {
                        int lb = 0;
                        while (lb < rl && ref[lb] < q) {
                            lb++;
                        }
                        int64_t mem = (lb < rl && ref[lb] == q) ? lb : -1;
                        uint32_t gb = p->bsearch(st, (uint32_t)rl, A[q]);
                        int64_t gm = p->member(st, (uint32_t)rl, A[q]);
                        if ((int)gb != lb || gm != mem) {
                            PFAIL("packed.Member/BinarySearch", "wrong_result", "%s: after [%s] %s: search 0x%" PRIx64 ": BinarySearch=%u want %d, Member=%" PRId64 " want %" PRId64, p->tag, hs, opd, A[q], gb, lb, gm, mem);
                        }
                        vh_count("calls", 2);
                    }
                    /* enqueue */
                    uint32_t key = (uint32_t)rl;
                    for (int i = 0; i < rl; i++) {
                        key = key * 6 + ref[i] + 1;
                    }
                    key %= sizeof seen;
                    /* exact key: sorted multisets are identified by counts; use a perfect key instead */
                    uint32_t cnt[5] = {0, 0, 0, 0, 0};
                    for (int i = 0; i < rl; i++) {
                        cnt[ref[i]]++;
                    }
                    uint32_t pk = 0;
                    for (int i = 0; i < 5; i++) {
                        pk = pk * 8 + cnt[i];
                    }
                    if (!seen[pk % sizeof seen]) {
                        seen[pk % sizeof seen] = 1;
                        sstate ns;
                        ns.len = (uint8_t)rl;
                        memcpy(ns.e, ref, MAXLEN);
                        if (qt < sizeof queue / sizeof *queue) {
                            queue[qt++] = ns;
                        }
                        nstates++;
                    }
                }
            }
        }
    }
    vh_count("states", nstates);
    vh_count("transitions", ntrans);
    vh_count("cases", ntrans);
    char ck[96];
    snprintf(ck, sizeof ck, "sorted/%s", p->tag);
    vh_class(ck, "closure: %" PRIu64 " states, %" PRIu64 " transitions", nstates, ntrans);
}

int main(int argc, char **argv) {
    vh_init(argc, argv);
    vh_sandbox_init();
    vh_watchdog(60); /* a library call that makes no progress for a whole period is reported as a hang */
    vh_gb_init(0, 1 << 16);
    int complete = 1;
    for (int k = 0; k < NPINST; k++) {
        char sec[64];
        snprintf(sec, sizeof sec, "isolation/%d", k);
        cur_inst = &PINST[k];
        if (vh_section_begin(sec)) {
            if (vh_deadline_now()) {
                complete = 0;
                break;
            }
            isolation(&PINST[k]);
        }
    }
    vh_flag("isolation_all_instances", complete);
    /* sorted semantics: in-tree variants + boundary instances (first, last default; compact 1, 8, 9, 16, 17, 32) */
    if (vh_section_begin("sorted")) {
        for (int k = 0; k < NPINST; k++) {
            const pinst *p = &PINST[k];
            int pick = p->intree || (p->compact && (p->width == 1 || p->width == 8 || p->width == 9 || p->width == 16 || p->width == 17 || p->width == 32)) ||
                       (!p->compact && ((p->width == 1 && p->slotbits == 8) || (p->width == 7 && p->slotbits == 8) || (p->width == 31 && p->slotbits == 32) || (p->width == 32 && p->slotbits == 64) ||
                                        (p->width == 24 && p->slotbits == 16) || (p->width == 9 && p->slotbits == 8)));
            if (vh_thorough) {
                pick = 1;
            }
            if (!pick) {
                continue;
            }
            if (!vh_case()) {
                continue;
            }
            cur_inst = p;
            sorted_bfs(p);
        }
    }
    if (vh_section_begin("sorted-dups")) {
        for (int k = 0; k < NPINST; k++) {
            if (!vh_case()) {
                continue;
            }
            cur_inst = &PINST[k];
            if (SB_ENTER()) {
                sorted_dups(&PINST[k]);
                SB_LEAVE();
            } else {
                PFAIL("packed.sorted", vh_fault_name(), "%s sorted-dups %s", PINST[k].tag, vh_fault_msg);
            }
        }
    }
    /* far elements and long sorted arrays */
    far_map = mmap(NULL, FAR_MAP, PROT_NONE, MAP_PRIVATE | MAP_ANONYMOUS | MAP_NORESERVE, -1, 0);
    if (far_map == MAP_FAILED) {
        vh_flag("far_storage_mapped", 0);
    } else {
        vh_flag("far_storage_mapped", 1);
        if (vh_section_begin("far")) {
            for (int k = 0; k < NPINST; k++) {
                cur_inst = &PINST[k];
                far_elements(&PINST[k]);
            }
        }
        if (vh_section_begin("sorted-long")) {
            for (int k = 0; k < NPINST; k++) {
                const pinst *p = &PINST[k];
                int pick = p->maxel < 70000 || p->intree || (p->width == 12 && p->slotbits == 8) || (p->width == 31 && p->slotbits == 32) || (p->width == 17 && p->slotbits == 16 && !p->compact);
                if (vh_thorough) {
                    pick = pick || p->width % 4 == 1;
                }
                if (!pick || !vh_case()) {
                    continue;
                }
                cur_inst = p;
                if (SB_ENTER()) {
                    sorted_long(p);
                    SB_LEAVE();
                } else {
                    PFAIL("packed.sorted", vh_fault_name(), "%s %s", cur_desc, vh_fault_msg);
                }
            }
        }
    }
    if (getenv("VERIF_GIANT") && vh_section_begin("giant-insert")) {
        for (int k = 0; k < NPINST; k++) {
            const pinst *p = &PINST[k];
            if (p->compact || p->intree || p->maxel != 0xffffffffull || p->width != p->slotbits || !(p->width == 8 || p->width == 16 || p->width == 32)) {
                continue;
            }
            if (!vh_case()) {
                continue;
            }
            cur_inst = p;
            giant_insert(p);
        }
    }
    vh_write_out();
    return 0;
}
