/* c14.c - E-enum over byte strings for the decoders that are told how large their input is (C14).
 * Input = guard-page buffer of exactly the declared size; allocator = vmalloc with a 16 MiB request cap;
 * horizon = 2 s interval timer per call.
 */
#include "vh.h"
#include "vmalloc.h"

#include <sys/time.h>

#include "varint.h"
#include "varintBP128.h"
#include "varintBitmap.h"
#include "varintDict.h"
#include "varintElias.h"
#include "varintRLE.h"
#include "varintTagged.h"

#include "corpus.h"
#include "ref_scalar.h"

enum { G_IN = 0, G_OUT = 1 };
static const uint8_t A12[12] = {0x00, 0x01, 0x02, 0x7f, 0x80, 0xf0, 0xf1, 0xf8, 0xf9, 0xfa, 0xfe, 0xff};

static char cur_desc[700];
static vm_report vmr;
static const vm_policy POL = {.fill = 0xCD, .max_request = (size_t)16 << 20};

static void arm_timer(int on) {
    struct itimerval it;
    memset(&it, 0, sizeof it);
    it.it_value.tv_sec = on ? 2 : 0;
    setitimer(ITIMER_REAL, &it, NULL);
}

static void fault(const char *api) {
    const char *kind = vh_fault_name();
    if (vh_fault_kind == 1) {
        kind = vh_fault_slot == G_IN ? "read_past_input" : "write_past_capacity";
    }
    vh_fail(api, kind, "untagged", "%s [%s off=%ld] %s", cur_desc, vh_fault_name(), vh_fault_off, vh_fault_msg);
}
static void vm_verdict(const char *api) {
    if (vmr.refused_large) {
        vh_fail(api, "unbounded_allocation", "untagged", "%s: requested %zu bytes", cur_desc, vmr.largest_request);
    }
    if (vmr.overflows || vmr.underflows || vmr.bad_frees || vmr.double_frees) {
        vh_fail(api, "internal_heap_overflow", "untagged", "%s: %zu-byte block overflowed", cur_desc, vmr.first_bad_size);
    }
    if (vmr.leaks) {
        vh_fail(api, "leak", "untagged", "%s: %zu blocks (%zu bytes) not freed", cur_desc, vmr.leaks, vmr.leaked_bytes);
    }
}

#define CALL(api, stmt, after)                                                                                     \
    do {                                                                                                           \
        vm_begin_case(&POL);                                                                                       \
        arm_timer(1);                                                                                              \
        if (SB_ENTER()) {                                                                                          \
            stmt;                                                                                                  \
            SB_LEAVE();                                                                                            \
            arm_timer(0);                                                                                          \
            after;                                                                                                 \
            vm_end_case(&vmr);                                                                                     \
            vm_verdict(api);                                                                                       \
        } else {                                                                                                   \
            arm_timer(0);                                                                                          \
            vm_end_case(&vmr);                                                                                     \
            fault(api);                                                                                            \
        }                                                                                                          \
        vh_count("calls", 1);                                                                                      \
    } while (0)

static void describe(const char *what, const uint8_t *s, size_t len) {
    snprintf(cur_desc, sizeof cur_desc, "%s input[%zu]=%s", what, len, vh_hex(s, len));
}

/* ---------------------------------------------------------------- per-decoder probes on one byte string */
static void probe_dict(const uint8_t *s, size_t len) {
    uint8_t *in = vh_gb_get(G_IN, len, -1);
    memcpy(in, s, len);
    static const size_t caps[4] = {0, 1, 4, 1024};
    for (int ci = 0; ci < 4; ci++) {
        size_t cap = caps[ci];
        uint64_t *out = (uint64_t *)vh_gb_get(G_OUT, cap * 8, 0xAB);
        size_t r = 0;
        CALL("dict.DecodeInto", r = varintDictDecodeInto(in, len, out, cap), {
            if (r > cap) {
                vh_fail("dict.DecodeInto", "returns_more_than_capacity", "untagged", "%s cap=%zu returned %zu", cur_desc, cap, r);
            }
            if (!vh_gb_canary_ok(G_OUT)) {
                vh_fail("dict.DecodeInto", "stray_write", "untagged", "%s cap=%zu", cur_desc, cap);
            }
        });
    }
    uint64_t *res = NULL;
    size_t oc = 0;
    CALL("dict.Decode", res = varintDictDecode(in, len, &oc), {
        if (res) {
            /* every returned element must be readable: touch them */
            volatile uint64_t acc = 0;
            for (size_t i = 0; i < oc && i < (1u << 22); i++) {
                acc += res[i];
            }
            if (oc > len) {
                vh_fail("dict.Decode", "count_exceeds_input", "untagged", "%s returned %zu values from %zu bytes", cur_desc, oc, len);
            }
            free(res);
        }
    });
    vh_count("cases", 1);
}

static int elias_light = 0; /* deviations section: thinner (bits, capacity) grid (5 bit counts x 2 capacities); the strings section uses the full 9 x 3 grid */
static void probe_elias(const uint8_t *s, size_t len) {
    if (len == 0) {
        return;
    }
    static const size_t maxc[3] = {1, 4, 64};
    for (int delta = 0; delta < 2; delta++) {
        const char *api = delta ? "elias.DeltaDecodeArray" : "elias.GammaDecodeArray";
        for (int bi = 0; bi <= 8; bi++) {
            /* declared bits: 8*len, 8*len-1 ... 8*len-7, and 0; buffer holds ceil(bits/8) bytes */
            if (elias_light && !(bi == 0 || bi == 1 || bi == 3 || bi == 7 || bi == 8)) {
                continue;
            }
            size_t bits = bi == 8 ? 0 : 8 * len - (size_t)bi;
            size_t nbytes = (bits + 7) / 8;
            for (int mi = 0; mi < 3; mi++) {
                if (elias_light && mi == 1) {
                    continue;
                }
                size_t r[2] = {0, 0};
                uint64_t vals[2][64];
                for (int fill = 0; fill < 2; fill++) {
                    uint8_t *in = vh_gb_get(G_IN, nbytes, -1);
                    memcpy(in, s, nbytes);
                    if (bits % 8 && nbytes) {
                        /* bits past the declared limit inside the last byte: two fills */
                        uint8_t mask = (uint8_t)(0xff >> (bits % 8));
                        in[nbytes - 1] = fill ? (uint8_t)(in[nbytes - 1] | mask) : (uint8_t)(in[nbytes - 1] & ~mask);
                    }
                    uint64_t *out = (uint64_t *)vh_gb_get(G_OUT, maxc[mi] * 8, 0xAB);
                    size_t rr = 0;
                    CALL(api, rr = delta ? varintEliasDeltaDecodeArray(in, bits, out, maxc[mi]) : varintEliasGammaDecodeArray(in, bits, out, maxc[mi]), {
                        if (rr > maxc[mi]) {
                            vh_fail(api, "returns_more_than_capacity", "untagged", "%s bits=%zu maxCount=%zu returned %zu", cur_desc, bits, maxc[mi], rr);
                            rr = maxc[mi];
                        }
                        if (!vh_gb_canary_ok(G_OUT)) {
                            vh_fail(api, "stray_write", "untagged", "%s bits=%zu", cur_desc, bits);
                        }
                        memcpy(vals[fill], out, rr * 8);
                    });
                    r[fill] = rr;
                    if (bits % 8 == 0) {
                        r[1] = r[0];
                        memcpy(vals[1], vals[0], sizeof vals[0]);
                        break;
                    }
                }
                if (r[0] != r[1] || memcmp(vals[0], vals[1], r[0] * 8)) {
                    vh_fail(api, "depends_on_bits_past_limit", "untagged", "%s bits=%zu maxCount=%zu: %zu values with trailing bits 0, %zu with trailing bits 1", cur_desc, bits, maxc[mi], r[0], r[1]);
                }
                /* each decoded value costs at least one bit */
                if (r[0] > bits) {
                    vh_fail(api, "count_exceeds_input", "untagged", "%s bits=%zu returned %zu values", cur_desc, bits, r[0]);
                }
            }
        }
    }
    vh_count("cases", 1);
}

static void probe_bitmap(const uint8_t *s, size_t len) {
    uint8_t *in = vh_gb_get(G_IN, len, -1);
    memcpy(in, s, len);
    varintBitmap *vb = NULL;
    CALL("bitmap.Decode", vb = varintBitmapDecode(in, len), {
        if (vb) {
            /* read-only observers and free must be safe on whatever was accepted */
            uint32_t c = varintBitmapCardinality(vb);
            (void)varintBitmapContains(vb, 0);
            (void)varintBitmapContains(vb, 65535);
            (void)varintBitmapContains(vb, 4096);
            varintBitmapIterator it = varintBitmapCreateIterator(vb);
            uint32_t n = 0;
            while (n < 70000 && varintBitmapIteratorNext(&it)) {
                n++;
            }
            (void)c;
            varintBitmapFree(vb);
        }
    });
    vh_count("cases", 1);
}

/* decode + free only: what a hostile header makes the deserialiser itself do (no use of the accepted object) */
static void probe_bitmap_decode_only(const uint8_t *s, size_t len) {
    uint8_t *in = vh_gb_get(G_IN, len, -1);
    memcpy(in, s, len);
    varintBitmap *vb = NULL;
    CALL("bitmap.Decode", {
        vb = varintBitmapDecode(in, len);
        if (vb) {
            varintBitmapFree(vb);
        }
    }, {});
    vh_count("cases", 1);
}

static void probe_rle(const uint8_t *s, size_t len) {
    uint8_t *in = vh_gb_get(G_IN, len, -1);
    memcpy(in, s, len);
    size_t r = 0;
    CALL("RLE.GetRunCount", r = varintRLEGetRunCount(in, len), {
        if (r > len / 2) {
            vh_fail("RLE.GetRunCount", "count_exceeds_input", "untagged", "%s returned %zu runs from %zu bytes", cur_desc, r, len);
        }
    });
    vh_count("cases", 1);
}

static void probe_bp128_count(const uint8_t *s, size_t len) {
    uint8_t *in = vh_gb_get(G_IN, len, -1);
    memcpy(in, s, len);
    size_t r = 0;
    CALL("BP128.GetCount", r = varintBP128GetCount(in, len), { (void)r; });
    vh_count("cases", 1);
}

static void probe_all(const uint8_t *s, size_t len) {
    probe_dict(s, len);
    probe_bp128_count(s, len);
    probe_elias(s, len);
    probe_bitmap(s, len);
    probe_rle(s, len);
}

/* ---------------------------------------------------------------- tagged bounded reader: exhaustive */
static void run_tagged(void) {
    if (!vh_section_begin("tagged.Get")) {
        return;
    }
    static const uint8_t pay[4] = {0x00, 0xff, 0xa5, 0x01};
    for (int b0 = 0; b0 < 256; b0++) {
        for (int n = 0; n <= 10; n++) {
            for (int pi = 0; pi < 4; pi++) {
                if (!vh_case()) {
                    continue;
                }
                uint8_t buf[16];
                memset(buf, pay[pi], sizeof buf);
                buf[0] = (uint8_t)b0;
                if (pi == 3) {
                    for (int k = 1; k < 16; k++) {
                        buf[k] = (uint8_t)(k * 17);
                    }
                }
                size_t len = (size_t)n;
                uint8_t *in = vh_gb_get(G_IN, len, -1);
                memcpy(in, buf, len);
                describe("tagged", buf, len);
                int need = b0 <= 240 ? 1 : b0 <= 248 ? 2 : b0 - 246;
                uint64_t got = 0x1122334455667788ULL;
                int r = -1;
                CALL("tagged.Get", r = (int)varintTaggedGet(in, (int32_t)n, &got), {
                    int want = n >= need ? need : 0;
                    if (r != want) {
                        vh_fail("tagged.Get", "truncation_not_reported", "untagged", "%s n=%d returned %d, varint announces %d bytes", cur_desc, n, r, need);
                    } else if (r > 0) {
                        /* value must equal the reference decode: re-encode and compare */
                        uint8_t re[16];
                        int rl = ref_tagged(got, re);
                        /* non-canonical encodings (e.g. fa 00 00 01) decode to small values: compare by decoding rule */
                        uint64_t ref = 0;
                        if (b0 <= 240) {
                            ref = (uint64_t)b0;
                        } else if (b0 <= 248) {
                            ref = 240 + 256 * (uint64_t)(b0 - 241) + buf[1];
                        } else if (b0 == 249) {
                            ref = 2288 + 256 * (uint64_t)buf[1] + buf[2];
                        } else {
                            for (int k = 1; k < need; k++) {
                                ref = ref << 8 | buf[k];
                            }
                        }
                        (void)rl;
                        if (got != ref) {
                            vh_fail("tagged.Get", "wrong_value", "untagged", "%s n=%d value %" PRIu64 " want %" PRIu64, cur_desc, n, got, ref);
                        }
                    }
                });
                vh_count("cases", 1);
                char ck[48];
                snprintf(ck, sizeof ck, "tagged/need%d/%s", need, n >= need ? "complete" : "truncated");
                vh_class(ck, "%s n=%d", cur_desc, n);
            }
        }
    }
}

/* negative and zero lengths never read anything */
static void run_tagged_negative(void) {
    if (!vh_section_begin("tagged.Get/nonpositive")) {
        return;
    }
    static const int32_t NS[] = {0, -1, -9, INT32_MIN};
    for (int b0 = 0; b0 < 256; b0 += 5) {
        for (size_t k = 0; k < sizeof NS / sizeof *NS; k++) {
            if (!vh_case()) {
                continue;
            }
            uint8_t *in = vh_gb_get(G_IN, 0, -1); /* zero readable bytes: any read faults */
            uint64_t got = 0;
            int r = -1;
            snprintf(cur_desc, sizeof cur_desc, "tagged with n=%d (no readable byte)", NS[k]);
            CALL("tagged.Get", r = (int)varintTaggedGet(in, NS[k], &got), {
                if (r != 0) {
                    vh_fail("tagged.Get", "truncation_not_reported", "untagged", "%s returned %d", cur_desc, r);
                }
            });
            vh_count("cases", 1);
        }
    }
    vh_class("tagged/nonpositive-length", "n in {0,-1,-9,INT32_MIN}");
}

/* ---------------------------------------------------------------- byte-string alphabet B */
static void run_strings(void) {
    if (!vh_section_begin("strings")) {
        return;
    }
    int complete = 1;
    /* all strings of length 0..2 over all 256 byte values */
    uint8_t s[8];
    for (uint32_t i = 0; i < 1 + 256 + 65536; i++) {
        if (!vh_case()) {
            continue;
        }
        size_t len = i == 0 ? 0 : i <= 256 ? 1 : 2;
        uint32_t t = i == 0 ? 0 : i <= 256 ? i - 1 : i - 257;
        s[0] = (uint8_t)(t & 0xff);
        s[1] = (uint8_t)(t >> 8);
        describe("B256", s, len);
        probe_all(s, len);
        if (len <= 1 || (t & 0xff) == 0xff) {
            char ck[32];
            snprintf(ck, sizeof ck, "B256/len%zu", len);
            vh_class(ck, "%s", cur_desc);
        }
    }
    /* all strings of length 3..L over the 12-byte alphabet */
    int L = vh_thorough ? 6 : 4;
    for (int len = 3; len <= L && complete; len++) {
        uint64_t total = 1;
        for (int k = 0; k < len; k++) {
            total *= 12;
        }
        for (uint64_t i = 0; i < total; i++) {
            if (!vh_case()) {
                continue;
            }
            if (vh_deadline_hit()) {
                complete = 0;
                break;
            }
            uint64_t t = i;
            for (int k = 0; k < len; k++) {
                s[k] = A12[t % 12];
                t /= 12;
            }
            describe("B12", s, (size_t)len);
            probe_all(s, (size_t)len);
            if (i % 1237 == 0) {
                char ck[32];
                snprintf(ck, sizeof ck, "B12/len%d/first%02x", len, s[0]);
                vh_class(ck, "%s", cur_desc);
            }
        }
    }
    vh_flag("strings_complete", complete);
}

/* ---------------------------------------------------------------- Elias: extreme codes
 * Hostile bit strings built from the code structure itself: k leading zeros (k up to 70: longer than any valid unary
 * prefix), the terminating one, then a payload of every fill class - in particular the gamma code of a number near
 * 2^64 used as the LENGTH field of a delta code - optionally after a few valid codes. */
static void run_elias_extreme(void) {
    if (!vh_section_begin("elias-extreme")) {
        return;
    }
    static const int PAY[5] = {0, 7, 63, 64, 70};
    for (int z = 0; z <= 70; z++) {
        for (int fi = 0; fi < 5; fi++) {
            for (int pi = 0; pi < 5; pi++) {
                for (int pre = 0; pre < 5; pre++) {
                    if (!vh_case()) {
                        continue;
                    }
                    uint8_t s[128];
                    memset(s, 0, sizeof s);
                    size_t pos = 0;
#define PUTBIT(b)                                                                                                  \
    do {                                                                                                           \
        if ((b) && pos / 8 < sizeof s) {                                                                           \
            s[pos / 8] |= (uint8_t)(1u << (7 - pos % 8));                                                          \
        }                                                                                                          \
        pos++;                                                                                                     \
    } while (0)
                    /* valid codes first: gamma(1)="1", gamma(3)="011", gamma(1), gamma(2)="010", gamma(5)="00101"; or
                     * three / seven maximal delta codes (2^64-1: 76 bits each: a decoder that batches codes and
                     * budgets 76 bits per code meets the hostile one as the last of a batch) */
                    static const char *PRE[3] = {"", "1011", "1011101000101"};
                    if (pre < 3) {
                        for (const char *q = PRE[pre]; *q; q++) {
                            PUTBIT(*q == '1');
                        }
                    } else {
                        int ncodes = pre == 3 ? 3 : 7;
                        for (int cI = 0; cI < ncodes; cI++) {
                            /* delta(2^64-1) = gamma(64) = 000000 1000000, then the 63 low bits (all ones) */
                            for (int k = 0; k < 6; k++) {
                                PUTBIT(0);
                            }
                            PUTBIT(1);
                            for (int k = 0; k < 6; k++) {
                                PUTBIT(0);
                            }
                            for (int k = 0; k < 63; k++) {
                                PUTBIT(1);
                            }
                        }
                    }
                    for (int k = 0; k < z; k++) {
                        PUTBIT(0);
                    }
                    PUTBIT(1);
                    int P = PAY[pi] == 0 ? z : PAY[pi];
                    for (int k = 0; k < P; k++) {
                        int b = fi == 0 ? 1 : fi == 1 ? 0 : fi == 2 ? (k < 55) : fi == 3 ? (k & 1) : (k >= 8);
                        PUTBIT(b);
                    }
                    /* tail: 24 more bits of ones or zeros (the payload a huge length would try to read) */
                    for (int k = 0; k < 24; k++) {
                        PUTBIT(fi & 1);
                    }
#undef PUTBIT
                    size_t len = (pos + 7) / 8;
                    if (len > sizeof s) {
                        len = sizeof s;
                    }
                    snprintf(cur_desc, sizeof cur_desc, "elias extreme code: %s then %d zeros, a one, %d payload bits (fill class %d): input[%zu]=%s", pre >= 3 ? "maximal delta codes" : pre ? "valid codes" : "nothing", z, P, fi, len, vh_hex(s, len));
                    probe_elias(s, len);
                    if (fi == 0 && pi == 0 && pre == 0) {
                        char ck[40];
                        snprintf(ck, sizeof ck, "elias-extreme/zeros%s", z < 64 ? "<64" : z == 64 ? "=64" : ">64");
                        vh_class(ck, "%d zeros", z);
                    }
                }
            }
        }
    }
}

/* ---------------------------------------------------------------- bitmap: structured hostile inputs
 * The deserialiser's format is type byte | u32 cardinality | body (array: cardinality x u16; dense: 8192 bytes; runs:
 * u32 run count + runs x 2 x u16). Every container type x cardinality / run count on both sides of every limit the
 * decoder knows (4096, 65535|65536|65537, 2^31, 2^32-1) x declared length {exactly what the header needs, one less,
 * one more, 64} x 3 body fills - including the maximal containers the library itself never writes. */
static void run_bitmap_structured(void) {
    if (!vh_section_begin("bitmap-structured")) {
        return;
    }
    static uint8_t big[5 + 4 + 65540 * 4 + 64];
    static const uint32_t CARD[12] = {0, 1, 2, 4095, 4096, 4097, 65535, 65536, 65537, 0x7fffffffu, 0x80000000u, 0xffffffffu};
    static const uint32_t RUNS[10] = {0, 1, 2, 32767, 32768, 65535, 65536, 65537, 0x80000000u, 0xffffffffu};
    static const int TYPES[5] = {0, 1, 2, 3, 255};
    for (int ti = 0; ti < 5; ti++) {
        for (int ci = 0; ci < 12; ci++) {
            for (int ri = 0; ri < 10; ri++) {
                if (TYPES[ti] != 2 && ri != 0) {
                    continue;
                }
                if (!vh_case()) {
                    continue;
                }
                uint32_t card = CARD[ci], runs = RUNS[ri];
                size_t need = 5;
                if (TYPES[ti] == 0) {
                    need += (size_t)(card > 65540 ? 65540 : card) * 2;
                } else if (TYPES[ti] == 1) {
                    need += 8192;
                } else if (TYPES[ti] == 2) {
                    need += 4 + (size_t)(runs > 65540 ? 65540 : runs) * 4;
                }
                for (int fill = 0; fill < 3; fill++) {
                    memset(big, fill == 1 ? 0xff : 0x00, sizeof big);
                    big[0] = (uint8_t)TYPES[ti];
                    memcpy(big + 1, &card, 4);
                    size_t body = 5;
                    if (TYPES[ti] == 2) {
                        memcpy(big + 5, &runs, 4);
                        body = 9;
                    }
                    if (fill == 2) {
                        /* ascending 16-bit values (valid members / run bounds) */
                        for (size_t k = 0; body + 2 * k + 1 < sizeof big; k++) {
                            uint16_t x = (uint16_t)k;
                            memcpy(big + body + 2 * k, &x, 2);
                        }
                    }
                    size_t lens[4] = {need, need ? need - 1 : 0, need + 1, 64};
                    for (int li = 0; li < 4; li++) {
                        size_t len = lens[li];
                        if (len > sizeof big) {
                            continue;
                        }
                        snprintf(cur_desc, sizeof cur_desc, "bitmap: type %d cardinality %u%s%.0u, body fill %s, declared length %zu (header needs %zu)", TYPES[ti], card, TYPES[ti] == 2 ? " runs " : "", TYPES[ti] == 2 ? runs : 0,
                                 fill == 0 ? "00" : fill == 1 ? "ff" : "ascending", len, need);
                        probe_bitmap_decode_only(big, len);
                    }
                }
                if (ri == 0) {
                    char ck[48];
                    snprintf(ck, sizeof ck, "bitmap-structured/type%d/card%s", TYPES[ti], card <= 4096 ? "<=4096" : card <= 65536 ? "<=65536" : ">65536");
                    vh_class(ck, "cardinality %u", card);
                }
            }
        }
    }
}

/* ---------------------------------------------------------------- deviations from valid encodings */
static uint8_t encbuf[1 << 20];

static void deviations(const char *codec, const uint8_t *enc, size_t len, void (*probe)(const uint8_t *, size_t), int two) {
    static uint8_t m[1 << 20];
    if (len > 400) {
        return;
    }
    /* 0 deviations */
    snprintf(cur_desc, sizeof cur_desc, "%s valid encoding[%zu]=%s", codec, len, vh_hex(enc, len));
    probe(enc, len);
    /* every truncation length */
    for (size_t t = 0; t < len; t++) {
        snprintf(cur_desc, sizeof cur_desc, "%s truncated to %zu of %zu: %s", codec, t, len, vh_hex(enc, len));
        probe(enc, t);
    }
    /* every single-byte substitution over the 12-byte alphabet */
    for (size_t i = 0; i < len; i++) {
        for (int a = 0; a < 12; a++) {
            if (enc[i] == A12[a]) {
                continue;
            }
            memcpy(m, enc, len);
            m[i] = A12[a];
            snprintf(cur_desc, sizeof cur_desc, "%s byte %zu := %02x in %s", codec, i, A12[a], vh_hex(enc, len));
            probe(m, len);
            if (two && len <= 14) {
                for (size_t j = i + 1; j < len; j++) {
                    for (int b = 0; b < 12; b += 3) {
                        uint8_t keep = m[j];
                        m[j] = A12[b];
                        snprintf(cur_desc, sizeof cur_desc, "%s bytes %zu,%zu := %02x,%02x in %s", codec, i, j, A12[a], A12[b], vh_hex(enc, len));
                        probe(m, len);
                        m[j] = keep;
                    }
                }
            }
        }
    }
}

static void run_deviations(void) {
    if (!vh_section_begin("deviations")) {
        return;
    }
    corpus_iter it;
    corpus_begin(&it, vh_thorough, vh_thorough ? 130 : 24);
    elias_light = 1;
    int complete = 1;
    uint64_t *tmp = malloc(8 * CORPUS_MAXN);
    while (corpus_next(&it)) {
        if (!vh_case()) {
            continue;
        }
        if (vh_deadline_now()) {
            complete = 0;
            break;
        }
        /* S2 is thinned for this check (every 7th structured array; every 211th in the quick tier);
         * the quick tier also thins S1 beyond length 2 */
        if (it.family[1] == '2' && (it.i % (vh_thorough ? 7 : 211)) != 0) {
            continue;
        }
        if (!vh_thorough && it.family[1] == '1' && it.n > 2 && (it.i % 5) != 0) {
            continue;
        }
        /* S4 (width-class worst cases at every length) is thinned too: every 31st (quick: every 419th) */
        if (it.family[1] == '4' && (it.i % (vh_thorough ? 31 : 419)) != 0) {
            continue;
        }
        size_t n = it.n;
        size_t len;
        len = varintDictEncode(encbuf, it.v, n);
        if (len) {
            deviations("dict", encbuf, len, probe_dict, vh_thorough);
        }
        for (size_t i = 0; i < n; i++) {
            tmp[i] = it.v[i] ? it.v[i] : 1;
        }
        varintEliasMeta em;
        if (n <= 12) {
            len = varintEliasGammaEncodeArray(encbuf, tmp, n, &em);
            if (len <= 64) {
                deviations("gamma", encbuf, len, probe_elias, 0);
            }
            len = varintEliasDeltaEncodeArray(encbuf, tmp, n, &em);
            if (len <= 64) {
                deviations("delta", encbuf, len, probe_elias, 0);
            }
        }
        len = varintRLEEncode(encbuf, it.v, n, NULL);
        deviations("rle", encbuf, len, probe_rle, vh_thorough);
        /* bitmap: encode the set of the low 16 bits */
        varintBitmap *vb = varintBitmapCreate();
        for (size_t i = 0; i < n; i++) {
            varintBitmapAdd(vb, (uint16_t)it.v[i]);
        }
        len = varintBitmapEncode(vb, encbuf);
        varintBitmapFree(vb);
        deviations("bitmap", encbuf, len, probe_bitmap, vh_thorough);
        char ck[48];
        snprintf(ck, sizeof ck, "deviations/%s/n%zu", it.family, n > 8 ? 9 : n);
        vh_class(ck, "%s", it.desc);
    }
    /* bitmap container kinds beyond the array container, dict with a 2-byte index */
    if (vh_shard == 0 || vh_replay) {
        varintBitmap *vb = varintBitmapCreate();
        varintBitmapAddRange(vb, 100, 5000); /* runs */
        size_t len = varintBitmapEncode(vb, encbuf);
        deviations("bitmap-runs", encbuf, len, probe_bitmap, 1);
        varintBitmapAdd(vb, 7); /* dense */
        len = varintBitmapEncode(vb, encbuf);
        varintBitmapFree(vb);
        /* dense container is 8197 bytes: truncations at a few lengths and substitutions in the header only */
        static uint8_t big[9000];
        memcpy(big, encbuf, len);
        /* every truncation within 24 bytes of either end, plus a few in the middle */
        for (size_t cut = 0; cut < len; cut++) {
            if (cut > 24 && cut + 24 < len && cut != 100 && cut != 4096 && cut != 8191) {
                continue;
            }
            snprintf(cur_desc, sizeof cur_desc, "bitmap-dense truncated to %zu of %zu", cut, len);
            probe_bitmap(big, cut);
        }
        for (size_t i = 0; i < 5; i++) {
            for (int a = 0; a < 12; a++) {
                memcpy(big, encbuf, len);
                big[i] = A12[a];
                snprintf(cur_desc, sizeof cur_desc, "bitmap-dense header byte %zu := %02x", i, A12[a]);
                probe_bitmap(big, len);
            }
        }
        vh_class("deviations/bitmap-containers", "runs [100,5000) and dense container");
        /* dictionary with 300 distinct values (2-byte indices): count field deviations */
        uint64_t *v = malloc(8 * 1200);
        for (size_t i = 0; i < 1200; i++) {
            v[i] = (i % 300) * 3;
        }
        len = varintDictEncode(encbuf, v, 1200);
        free(v);
        /* locate the count field: after dictSize (tagged) and 300 tagged entries */
        size_t pos = varintTaggedGetLen(encbuf);
        for (int i = 0; i < 300; i++) {
            pos += varintTaggedGetLen(encbuf + pos);
        }
        static uint8_t d2[4096 + 16];
        static const uint8_t hostile[][9] = {{0xff, 0x80, 0, 0, 0, 0, 0, 0, 0}, {0xff, 0xff, 0xff, 0xff, 0xff, 0xff, 0xff, 0xff, 0xff}, {0xff, 0x40, 0, 0, 0, 0, 0, 0, 1}, {0xfb, 0xff, 0xff, 0xff, 0xff, 0, 0, 0, 0}};
        for (size_t h = 0; h < 4; h++) {
            /* replace the 3-byte count by a 9-byte hostile count, keep the index bytes */
            size_t cl = varintTaggedGetLen(encbuf + pos);
            memcpy(d2, encbuf, pos);
            size_t hl = varintTaggedGetLen(hostile[h]);
            memcpy(d2 + pos, hostile[h], hl);
            memcpy(d2 + pos + hl, encbuf + pos + cl, len - pos - cl);
            size_t l2 = len - cl + hl;
            snprintf(cur_desc, sizeof cur_desc, "dict(300 distinct, 2-byte index) with count field := %s", vh_hex(hostile[h], hl));
            probe_dict(d2, l2);
        }
        vh_class("deviations/dict-wide-index", "300 distinct values, hostile counts");
    }
    free(tmp);
    corpus_end(&it);
    vh_flag("deviations_complete", complete);
}

int main(int argc, char **argv) {
    vh_init(argc, argv);
    vh_sandbox_init();
    vh_gb_init(G_IN, 1 << 19);
    vh_gb_init(G_OUT, 1 << 16);
    vm_init((size_t)256 << 20);
    run_tagged();
    run_tagged_negative();
    run_strings();
    elias_light = 0;
    run_elias_extreme();
    run_bitmap_structured();
    run_deviations();
    vh_write_out();
    return 0;
}
