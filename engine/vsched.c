/* vsched.c - TSan-ABI runtime + cooperative scheduler (see vsched.h). Compiled WITHOUT -fsanitize=thread. */
#define _GNU_SOURCE
#include "vsched.h"

#include <pthread.h>
#include <semaphore.h>
#include <stdio.h>
#include <stdlib.h>
#include <string.h>
#include <sys/mman.h>
#include <unistd.h>

void *__real_malloc(size_t);
void *__real_calloc(size_t, size_t);
void *__real_realloc(void *, size_t);
void __real_free(void *);
int __real_pthread_mutex_lock(pthread_mutex_t *);
int __real_pthread_mutex_unlock(pthread_mutex_t *);
int __real_pthread_mutex_trylock(pthread_mutex_t *);

#define EVCAP (1u << 24)
#define ARENA_BYTES ((size_t)64 << 20)

enum { T_NEW, T_RUNNABLE, T_BLOCKED, T_DONE };

typedef struct {
    pthread_t th;
    sem_t sem;
    int state;
    int blocked_on; /* mutex id */
    vs_body body;
    void *arg;
    uintptr_t stack_lo, stack_hi;
    uint8_t *arena;
    size_t arena_off;
    uint32_t locks;
    int started;
} vthread;

static vthread TH[VS_MAXT];
static vs_exec EX;
static int NT;
static volatile int ACTIVE;
static __thread int tls_tid = -1;
static sem_t main_sem;
static const uint8_t *PREFIX;
static int PREFIX_LEN;
static int SWITCH_ON_ENTRY;
static int DEFAULT_DESC;

typedef struct {
    uintptr_t lo, hi;
    int tid;
} region;
static region PRIV[256], SHRO[64], HOT[64];
static int NPRIV, NSHRO, NHOT;

#define MAXMUTEX 32
static pthread_mutex_t *MUT[MAXMUTEX];
static int MUT_OWNER[MAXMUTEX];
static int NMUT;

void vs_init(void) {
    static int done;
    if (done) {
        return;
    }
    done = 1;
    sem_init(&main_sem, 0, 0);
    for (int i = 0; i < VS_MAXT; i++) {
        sem_init(&TH[i].sem, 0, 0);
        TH[i].arena = mmap(NULL, ARENA_BYTES, PROT_READ | PROT_WRITE, MAP_PRIVATE | MAP_ANONYMOUS | MAP_NORESERVE, -1, 0);
        EX.events[i] = mmap(NULL, sizeof(vs_event) * (size_t)EVCAP, PROT_READ | PROT_WRITE, MAP_PRIVATE | MAP_ANONYMOUS | MAP_NORESERVE, -1, 0);
        if (TH[i].arena == MAP_FAILED || EX.events[i] == MAP_FAILED) {
            perror("vsched init");
            exit(3);
        }
    }
}
void vs_reset_regions(void) { NPRIV = NSHRO = 0; }
void vs_add_private(int tid, const void *p, size_t n) {
    if (NPRIV < 256) {
        PRIV[NPRIV].lo = (uintptr_t)p;
        PRIV[NPRIV].hi = (uintptr_t)p + n;
        PRIV[NPRIV].tid = tid;
        NPRIV++;
    }
}
void vs_add_shared_ro(const void *p, size_t n) {
    if (NSHRO < 64) {
        SHRO[NSHRO].lo = (uintptr_t)p;
        SHRO[NSHRO].hi = (uintptr_t)p + n;
        NSHRO++;
    }
}
void vs_clear_hot(void) { NHOT = 0; }
void vs_add_hot(uintptr_t addr, size_t n) {
    if (NHOT < 64) {
        HOT[NHOT].lo = addr;
        HOT[NHOT].hi = addr + n;
        NHOT++;
    }
}
void vs_set_switch_on_func_entry(int on) { SWITCH_ON_ENTRY = on; }
void vs_set_default_order(int descending) { DEFAULT_DESC = descending; }

/* ---------------------------------------------------------------- scheduling */
static int runnable(int t) {
    if (TH[t].state == T_RUNNABLE) {
        return 1;
    }
    if (TH[t].state == T_BLOCKED) {
        return MUT_OWNER[TH[t].blocked_on] < 0;
    }
    return 0;
}

/* choice point reached by thread `self` (-1: main at start). self_can_run: the thread may continue.
 * Returns the tid to run next (may be self), or -1 if nothing is enabled. */
static int choose(int self, int self_can_run, int rr_hint) {
    vs_point P;
    memset(&P, 0, sizeof P);
    P.running = self < 0 ? 0xff : (uint8_t)self;
    P.running_enabled = (uint8_t)(self >= 0 && self_can_run);
    int n = 0;
    if (self >= 0 && self_can_run) {
        P.enabled[n++] = (uint8_t)self;
    }
    if (DEFAULT_DESC) {
        for (int t = NT - 1; t >= 0; t--) {
            if (t != self && runnable(t)) {
                P.enabled[n++] = (uint8_t)t;
            }
        }
    } else {
        for (int t = 0; t < NT; t++) {
            if (t != self && runnable(t)) {
                P.enabled[n++] = (uint8_t)t;
            }
        }
    }
    P.nenabled = (uint8_t)n;
    if (n == 0) {
        return -1;
    }
    int i = EX.npoints;
    int choice = 0;
    if (i < PREFIX_LEN) {
        choice = PREFIX[i];
        if (choice >= n) {
            EX.diverged = 1;
            choice = 0;
        }
    } else if (rr_hint && n > 1) {
        choice = 1;
    }
    P.chosen = (uint8_t)choice;
    if (SWITCH_ON_ENTRY) {
        /* fixed round-robin policy, used only as a serial-order determinism run: points are not recorded */
    } else if (i < VS_MAXPOINTS) {
        EX.points[EX.npoints++] = P;
    } else {
        EX.truncated = 1;
    }
    return P.enabled[choice];
}

static void point(int self_can_run, int rr_hint) {
    int self = tls_tid;
    int next = choose(self, self_can_run, rr_hint);
    if (next < 0) {
        /* nothing enabled: deadlock (only possible at a blocked mutex acquire) */
        EX.deadlock = 1;
        return;
    }
    if (next != self) {
        sem_post(&TH[next].sem);
        sem_wait(&TH[self].sem);
    }
}

static void *thread_main(void *arg) {
    int t = (int)(intptr_t)arg;
    tls_tid = t;
    pthread_attr_t at;
    void *sa = NULL;
    size_t ss = 0;
    if (pthread_getattr_np(pthread_self(), &at) == 0) {
        pthread_attr_getstack(&at, &sa, &ss);
        pthread_attr_destroy(&at);
    }
    TH[t].stack_lo = (uintptr_t)sa;
    TH[t].stack_hi = (uintptr_t)sa + ss;
    sem_wait(&TH[t].sem); /* wait for the baton */
    TH[t].started = 1;
    TH[t].body(TH[t].arg);
    TH[t].state = T_DONE;
    /* thread end: choose who continues */
    int next = choose(t, 0, 0);
    tls_tid = -1;
    if (next >= 0) {
        sem_post(&TH[next].sem);
    } else {
        sem_post(&main_sem);
    }
    return NULL;
}

const vs_exec *vs_run(int nthreads, vs_body *bodies, void **args, const uint8_t *prefix, int prefix_len) {
    vs_init();
    NT = nthreads;
    PREFIX = prefix;
    PREFIX_LEN = prefix_len;
    EX.nthreads = nthreads;
    EX.npoints = 0;
    EX.deadlock = EX.diverged = EX.truncated = 0;
    NMUT = 0;
    for (int t = 0; t < nthreads; t++) {
        EX.nevents[t] = 0;
        TH[t].state = T_RUNNABLE;
        TH[t].body = bodies[t];
        TH[t].arg = args[t];
        TH[t].arena_off = 0;
        TH[t].locks = 0;
        TH[t].started = 0;
    }
    ACTIVE = 1;
    for (int t = 0; t < nthreads; t++) {
        pthread_create(&TH[t].th, NULL, thread_main, (void *)(intptr_t)t);
    }
    int first = choose(-1, 0, 0);
    sem_post(&TH[first].sem);
    sem_wait(&main_sem);
    for (int t = 0; t < nthreads; t++) {
        pthread_join(TH[t].th, NULL);
    }
    ACTIVE = 0;
    return &EX;
}

/* ---------------------------------------------------------------- events */
static inline void classify(int t, uintptr_t a, vs_event *e) {
    if (a >= TH[t].stack_lo && a < TH[t].stack_hi) {
        e->klass = VS_K_OWN_STACK;
        e->rel = (uint32_t)(TH[t].stack_hi - a);
        return;
    }
    for (int u = 0; u < NT; u++) {
        uintptr_t lo = (uintptr_t)TH[u].arena;
        if (a >= lo && a < lo + ARENA_BYTES) {
            e->klass = u == t ? VS_K_OWN_HEAP : VS_K_FOREIGN_HEAP;
            e->rel = (uint32_t)(a - lo);
            return;
        }
    }
    for (int i = 0; i < NPRIV; i++) {
        if (a >= PRIV[i].lo && a < PRIV[i].hi) {
            e->klass = PRIV[i].tid == t ? VS_K_OWN_PRIVATE : VS_K_FOREIGN_PRIVATE;
            e->rel = (uint32_t)(a - PRIV[i].lo);
            return;
        }
    }
    for (int i = 0; i < NSHRO; i++) {
        if (a >= SHRO[i].lo && a < SHRO[i].hi) {
            e->klass = VS_K_SHARED_RO;
            e->rel = (uint32_t)(a - SHRO[i].lo) + ((uint32_t)i << 24);
            return;
        }
    }
    e->klass = VS_K_GLOBAL;
    e->rel = (uint32_t)a;
}

static inline void access_event(void *addr, size_t size, int is_write, int is_atomic, void *pc) {
    int t = tls_tid;
    if (t < 0 || !ACTIVE) {
        return;
    }
    uintptr_t a = (uintptr_t)addr;
    /* hot addresses are choice points (before the access happens) */
    for (int i = 0; i < NHOT; i++) {
        if (a < HOT[i].hi && a + size > HOT[i].lo) {
            point(1, 0);
            break;
        }
    }
    size_t n = EX.nevents[t];
    if (n >= EVCAP) {
        EX.truncated = 1;
        return;
    }
    vs_event *e = &EX.events[t][n];
    e->addr = a;
    e->pc = (uintptr_t)pc;
    e->size = (uint32_t)size;
    e->is_write = (uint8_t)is_write;
    e->is_atomic = (uint8_t)is_atomic;
    e->locks = TH[t].locks;
    e->nlocks = (uint8_t)__builtin_popcount(TH[t].locks);
    classify(t, a, e);
    EX.nevents[t] = n + 1;
}

#define RA __builtin_return_address(0)
void __tsan_init(void) {}
void __tsan_func_entry(void *pc) {
    (void)pc;
    if (SWITCH_ON_ENTRY && tls_tid >= 0 && ACTIVE) {
        point(1, 1);
    }
}
void __tsan_func_exit(void) {}
void __tsan_read1(void *a) { access_event(a, 1, 0, 0, RA); }
void __tsan_read2(void *a) { access_event(a, 2, 0, 0, RA); }
void __tsan_read4(void *a) { access_event(a, 4, 0, 0, RA); }
void __tsan_read8(void *a) { access_event(a, 8, 0, 0, RA); }
void __tsan_read16(void *a) { access_event(a, 16, 0, 0, RA); }
void __tsan_write1(void *a) { access_event(a, 1, 1, 0, RA); }
void __tsan_write2(void *a) { access_event(a, 2, 1, 0, RA); }
void __tsan_write4(void *a) { access_event(a, 4, 1, 0, RA); }
void __tsan_write8(void *a) { access_event(a, 8, 1, 0, RA); }
void __tsan_write16(void *a) { access_event(a, 16, 1, 0, RA); }
void __tsan_unaligned_read2(void *a) { access_event(a, 2, 0, 0, RA); }
void __tsan_unaligned_read4(void *a) { access_event(a, 4, 0, 0, RA); }
void __tsan_unaligned_read8(void *a) { access_event(a, 8, 0, 0, RA); }
void __tsan_unaligned_read16(void *a) { access_event(a, 16, 0, 0, RA); }
void __tsan_unaligned_write2(void *a) { access_event(a, 2, 1, 0, RA); }
void __tsan_unaligned_write4(void *a) { access_event(a, 4, 1, 0, RA); }
void __tsan_unaligned_write8(void *a) { access_event(a, 8, 1, 0, RA); }
void __tsan_unaligned_write16(void *a) { access_event(a, 16, 1, 0, RA); }
void __tsan_read_range(void *a, unsigned long n) { access_event(a, n, 0, 0, RA); }
void __tsan_write_range(void *a, unsigned long n) { access_event(a, n, 1, 0, RA); }
void __tsan_vptr_update(void **a, void *v) {
    (void)v;
    access_event(a, 8, 1, 0, RA);
}
void __tsan_vptr_read(void **a) { access_event(a, 8, 0, 0, RA); }
void *__tsan_memcpy(void *d, const void *s, unsigned long n) {
    access_event((void *)s, n, 0, 0, RA);
    access_event(d, n, 1, 0, RA);
    return memcpy(d, s, n);
}
void *__tsan_memmove(void *d, const void *s, unsigned long n) {
    access_event((void *)s, n, 0, 0, RA);
    access_event(d, n, 1, 0, RA);
    return memmove(d, s, n);
}
void *__tsan_memset(void *d, int c, unsigned long n) {
    access_event(d, n, 1, 0, RA);
    return memset(d, c, n);
}
/* explicit libc calls from instrumented code (not lowered from intrinsics) */
void *__real_memcpy(void *, const void *, size_t);
void *__real_memmove(void *, const void *, size_t);
void *__real_memset(void *, int, size_t);
int __real_memcmp(const void *, const void *, size_t);
void __real_qsort(void *, size_t, size_t, int (*)(const void *, const void *));
void *__wrap_memcpy(void *d, const void *s, size_t n) {
    access_event((void *)s, n, 0, 0, RA);
    access_event(d, n, 1, 0, RA);
    return __real_memcpy(d, s, n);
}
void *__wrap_memmove(void *d, const void *s, size_t n) {
    access_event((void *)s, n, 0, 0, RA);
    access_event(d, n, 1, 0, RA);
    return __real_memmove(d, s, n);
}
void *__wrap_memset(void *d, int c, size_t n) {
    access_event(d, n, 1, 0, RA);
    return __real_memset(d, c, n);
}
int __wrap_memcmp(const void *a, const void *b, size_t n) {
    access_event((void *)a, n, 0, 0, RA);
    access_event((void *)b, n, 0, 0, RA);
    return __real_memcmp(a, b, n);
}
void __wrap_qsort(void *base, size_t nmemb, size_t size, int (*cmp)(const void *, const void *)) {
    access_event(base, nmemb * size, 1, 0, RA);
    __real_qsort(base, nmemb, size, cmp);
}

/* atomics: sequentially consistent, each one an atomic event and - unless the location is in memory only the calling
 * thread can reach (its stack, its own heap blocks, its private regions), where no other thread can observe the order - a
 * choice point */
static inline void atomic_point(const void *addr) {
    int t = tls_tid;
    if (t < 0 || !ACTIVE) {
        return;
    }
    vs_event tmp;
    classify(t, (uintptr_t)addr, &tmp);
    if (tmp.klass == VS_K_OWN_STACK || tmp.klass == VS_K_OWN_HEAP || tmp.klass == VS_K_OWN_PRIVATE) {
        return;
    }
    point(1, 0);
}

#define ATOMIC_OPS(N, T)                                                                                           \
    T __tsan_atomic##N##_load(const volatile T *a, int mo) {                                                      \
        (void)mo;                                                                                                  \
        atomic_point((const void *)a);                                                                             \
        access_event((void *)a, sizeof(T), 0, 1, RA);                                                              \
        return __atomic_load_n(a, __ATOMIC_SEQ_CST);                                                               \
    }                                                                                                              \
    void __tsan_atomic##N##_store(volatile T *a, T v, int mo) {                                                    \
        (void)mo;                                                                                                  \
        atomic_point((const void *)a);                                                                             \
        access_event((void *)a, sizeof(T), 1, 1, RA);                                                              \
        __atomic_store_n(a, v, __ATOMIC_SEQ_CST);                                                                  \
    }                                                                                                              \
    T __tsan_atomic##N##_exchange(volatile T *a, T v, int mo) {                                                    \
        (void)mo;                                                                                                  \
        atomic_point((const void *)a);                                                                             \
        access_event((void *)a, sizeof(T), 1, 1, RA);                                                              \
        return __atomic_exchange_n(a, v, __ATOMIC_SEQ_CST);                                                        \
    }                                                                                                              \
    T __tsan_atomic##N##_fetch_add(volatile T *a, T v, int mo) {                                                   \
        (void)mo;                                                                                                  \
        atomic_point((const void *)a);                                                                             \
        access_event((void *)a, sizeof(T), 1, 1, RA);                                                              \
        return __atomic_fetch_add(a, v, __ATOMIC_SEQ_CST);                                                         \
    }                                                                                                              \
    T __tsan_atomic##N##_fetch_sub(volatile T *a, T v, int mo) {                                                   \
        (void)mo;                                                                                                  \
        atomic_point((const void *)a);                                                                             \
        access_event((void *)a, sizeof(T), 1, 1, RA);                                                              \
        return __atomic_fetch_sub(a, v, __ATOMIC_SEQ_CST);                                                         \
    }                                                                                                              \
    T __tsan_atomic##N##_fetch_and(volatile T *a, T v, int mo) {                                                   \
        (void)mo;                                                                                                  \
        access_event((void *)a, sizeof(T), 1, 1, RA);                                                              \
        return __atomic_fetch_and(a, v, __ATOMIC_SEQ_CST);                                                         \
    }                                                                                                              \
    T __tsan_atomic##N##_fetch_or(volatile T *a, T v, int mo) {                                                    \
        (void)mo;                                                                                                  \
        access_event((void *)a, sizeof(T), 1, 1, RA);                                                              \
        return __atomic_fetch_or(a, v, __ATOMIC_SEQ_CST);                                                          \
    }                                                                                                              \
    T __tsan_atomic##N##_fetch_xor(volatile T *a, T v, int mo) {                                                   \
        (void)mo;                                                                                                  \
        access_event((void *)a, sizeof(T), 1, 1, RA);                                                              \
        return __atomic_fetch_xor(a, v, __ATOMIC_SEQ_CST);                                                         \
    }                                                                                                              \
    int __tsan_atomic##N##_compare_exchange_strong(volatile T *a, T *c, T v, int mo, int fmo) {                    \
        (void)mo;                                                                                                  \
        (void)fmo;                                                                                                 \
        atomic_point((const void *)a);                                                                             \
        access_event((void *)a, sizeof(T), 1, 1, RA);                                                              \
        return __atomic_compare_exchange_n(a, c, v, 0, __ATOMIC_SEQ_CST, __ATOMIC_SEQ_CST);                        \
    }                                                                                                              \
    int __tsan_atomic##N##_compare_exchange_weak(volatile T *a, T *c, T v, int mo, int fmo) {                      \
        (void)mo;                                                                                                  \
        (void)fmo;                                                                                                 \
        atomic_point((const void *)a);                                                                             \
        access_event((void *)a, sizeof(T), 1, 1, RA);                                                              \
        return __atomic_compare_exchange_n(a, c, v, 0, __ATOMIC_SEQ_CST, __ATOMIC_SEQ_CST);                        \
    }                                                                                                              \
    T __tsan_atomic##N##_compare_exchange_val(volatile T *a, T c, T v, int mo, int fmo) {                          \
        (void)mo;                                                                                                  \
        (void)fmo;                                                                                                 \
        access_event((void *)a, sizeof(T), 1, 1, RA);                                                              \
        __atomic_compare_exchange_n(a, &c, v, 0, __ATOMIC_SEQ_CST, __ATOMIC_SEQ_CST);                              \
        return c;                                                                                                  \
    }
ATOMIC_OPS(8, uint8_t)
ATOMIC_OPS(16, uint16_t)
ATOMIC_OPS(32, uint32_t)
ATOMIC_OPS(64, uint64_t)
void __tsan_atomic_thread_fence(int mo) { (void)mo; }
void __tsan_atomic_signal_fence(int mo) { (void)mo; }

/* ---------------------------------------------------------------- mutexes */
static int mutex_id(pthread_mutex_t *m) {
    for (int i = 0; i < NMUT; i++) {
        if (MUT[i] == m) {
            return i;
        }
    }
    if (NMUT < MAXMUTEX) {
        MUT[NMUT] = m;
        MUT_OWNER[NMUT] = -1;
        return NMUT++;
    }
    return MAXMUTEX - 1;
}
int __wrap_pthread_mutex_lock(pthread_mutex_t *m) {
    int t = tls_tid;
    if (t < 0 || !ACTIVE) {
        return __real_pthread_mutex_lock(m);
    }
    int id = mutex_id(m);
    /* acquiring is a choice point; while the mutex is held by someone else this thread is not enabled */
    for (;;) {
        if (MUT_OWNER[id] < 0) {
            point(1, 0);
            if (MUT_OWNER[id] < 0) {
                break;
            }
        }
        TH[t].state = T_BLOCKED;
        TH[t].blocked_on = id;
        point(0, 0);
        TH[t].state = T_RUNNABLE;
        if (EX.deadlock) {
            break;
        }
    }
    MUT_OWNER[id] = t;
    TH[t].locks |= 1u << id;
    return 0;
}
int __wrap_pthread_mutex_trylock(pthread_mutex_t *m) {
    int t = tls_tid;
    if (t < 0 || !ACTIVE) {
        return __real_pthread_mutex_trylock(m);
    }
    int id = mutex_id(m);
    point(1, 0);
    if (MUT_OWNER[id] >= 0) {
        return 16; /* EBUSY */
    }
    MUT_OWNER[id] = t;
    TH[t].locks |= 1u << id;
    return 0;
}
int __wrap_pthread_mutex_unlock(pthread_mutex_t *m) {
    int t = tls_tid;
    if (t < 0 || !ACTIVE) {
        return __real_pthread_mutex_unlock(m);
    }
    int id = mutex_id(m);
    MUT_OWNER[id] = -1;
    TH[t].locks &= ~(1u << id);
    point(1, 0);
    return 0;
}

/* ---------------------------------------------------------------- allocator: per-thread bump arenas */
typedef struct {
    size_t size;
    size_t pad;
} ahdr;
static void *arena_alloc(int t, size_t n, int zero) {
    size_t need = sizeof(ahdr) + ((n + 15) & ~(size_t)15);
    if (TH[t].arena_off + need > ARENA_BYTES) {
        return NULL;
    }
    ahdr *h = (ahdr *)(TH[t].arena + TH[t].arena_off);
    TH[t].arena_off += need;
    h->size = n;
    void *p = h + 1;
    memset(p, zero ? 0 : 0xCD, n);
    return p;
}
static int in_any_arena(const void *p) {
    for (int u = 0; u < VS_MAXT; u++) {
        if (TH[u].arena && (const uint8_t *)p >= TH[u].arena && (const uint8_t *)p < TH[u].arena + ARENA_BYTES) {
            return 1;
        }
    }
    return 0;
}
void *__wrap_malloc(size_t n) {
    int t = tls_tid;
    if (t < 0 || !ACTIVE) {
        return __real_malloc(n);
    }
    return arena_alloc(t, n, 0);
}
void *__wrap_calloc(size_t a, size_t b) {
    int t = tls_tid;
    if (t < 0 || !ACTIVE) {
        return __real_calloc(a, b);
    }
    size_t n;
    if (__builtin_mul_overflow(a, b, &n)) {
        return NULL;
    }
    return arena_alloc(t, n, 1);
}
void *__wrap_realloc(void *p, size_t n) {
    int t = tls_tid;
    if (p && !in_any_arena(p)) {
        return __real_realloc(p, n);
    }
    if (t < 0 || !ACTIVE) {
        return p ? NULL : __real_realloc(p, n);
    }
    void *q = arena_alloc(t, n, 0);
    if (q && p) {
        ahdr *h = (ahdr *)p - 1;
        memcpy(q, p, h->size < n ? h->size : n);
    }
    return q;
}
void __wrap_free(void *p) {
    if (!p) {
        return;
    }
    if (in_any_arena(p)) {
        /* freeing is a write to the block as far as conflicts are concerned */
        ahdr *h = (ahdr *)p - 1;
        access_event(p, h->size ? h->size : 1, 1, 0, RA);
        return;
    }
    __real_free(p);
}
