/* vsched.h - controlled scheduler over real pthreads with compiler-instrumented memory events (C17).
 *
 * The code under test is compiled with clang -fsanitize=thread but linked with THIS runtime instead of
 * libtsan: every load/store the compiler cannot prove stack-private, every mem* intrinsic, every atomic and
 * every wrapped allocator / mutex / libc bulk-memory call becomes an event (thread, address, size, r/w, pc).
 * Threads are serialised by a baton; at choice points (thread start/end, access to a hot address, mutex
 * acquire, atomic operation) the scheduler follows a recorded choice prefix and then the default
 * "keep running" choice, so executions are deterministic and replayable.
 */
#ifndef VSCHED_H
#define VSCHED_H
#include <stddef.h>
#include <stdint.h>

#define VS_MAXT 16
#define VS_MAXPOINTS 8192

typedef struct vs_event {
    uintptr_t addr;
    uintptr_t pc;
    uint32_t size;
    uint8_t is_write;
    uint8_t is_atomic;
    uint8_t klass; /* address class, see below */
    uint8_t nlocks;
    uint32_t rel;   /* offset relative to the region of its class */
    uint32_t locks; /* bitmask of held mutex ids (first 32 mutexes) */
} vs_event;

enum { VS_K_OWN_STACK, VS_K_OWN_HEAP, VS_K_OWN_PRIVATE, VS_K_SHARED_RO, VS_K_FOREIGN_HEAP, VS_K_FOREIGN_PRIVATE, VS_K_GLOBAL };

typedef struct vs_point {
    uint8_t nenabled;
    uint8_t enabled[VS_MAXT]; /* canonical order: running thread first if still enabled, then ascending ids */
    uint8_t chosen;           /* index into enabled */
    uint8_t running_enabled;  /* the thread that reached the point can continue */
    uint8_t running;          /* tid that reached the point (0xff = scheduler start / thread end) */
} vs_point;

typedef struct vs_exec {
    int nthreads;
    size_t nevents[VS_MAXT];
    vs_event *events[VS_MAXT];
    int npoints;
    vs_point points[VS_MAXPOINTS];
    int deadlock;
    int diverged; /* a prefix choice was out of range */
    int truncated;
} vs_exec;

typedef void (*vs_body)(void *arg);

void vs_init(void);
/* private regions of a thread (its output buffers) and shared read-only regions */
void vs_reset_regions(void);
void vs_add_private(int tid, const void *p, size_t n);
void vs_add_shared_ro(const void *p, size_t n);
/* hot addresses: accesses overlapping them are choice points */
void vs_clear_hot(void);
void vs_add_hot(uintptr_t addr, size_t n);
/* switch at every function entry (used for the third serial-order determinism run) */
void vs_set_switch_on_func_entry(int on);
/* run nthreads bodies under the scheduler following `prefix` (choice indices) */
const vs_exec *vs_run(int nthreads, vs_body *bodies, void **args, const uint8_t *prefix, int prefix_len);
/* order in which threads are started when no prefix says otherwise: 0 ascending, 1 descending */
void vs_set_default_order(int descending);
#endif
