/* vmalloc.c - interposed allocator (link with -Wl,--wrap=malloc,--wrap=calloc,--wrap=realloc,--wrap=free).
 *
 * Active only between vm_begin_case() and vm_end_case(); otherwise passes through to libc.
 * Per-case bump arena: deterministic addresses, no reuse inside a case, redzones with canaries
 * before and after every block (checked at free and at case end), live-block table (leak oracle),
 * request log (largest request), programmable failure schedule (the k-th allocation fails),
 * programmable fill byte for fresh blocks and optional recycling of the most recently freed block
 * of equal size with its contents kept (C15 heap residue).
 *
 * With -DVM_PASSTHROUGH (sanitizer builds) every vm_* function is a no-op bookkeeping stub.
 */
#define _GNU_SOURCE
#include "vmalloc.h"
#include <stdint.h>
#include <stdio.h>
#include <stdlib.h>
#include <string.h>
#include <sys/mman.h>

#ifndef VM_PASSTHROUGH
void *__real_malloc(size_t);
void *__real_calloc(size_t, size_t);
void *__real_realloc(void *, size_t);
void __real_free(void *);

#define VM_RZ 64
#define VM_MAGIC 0x564d424c4f434b21ULL
#define VM_MAXBLK 65536

typedef struct vm_hdr {
    uint64_t magic;
    size_t size;
    void *site;
    int freed;
    int idx;
} vm_hdr; /* followed by VM_RZ front redzone, payload, VM_RZ back redzone */

static uint8_t *arena = NULL;
static size_t arena_size = 0, arena_off = 0;
static int vm_active = 0;
static vm_hdr *blocks[VM_MAXBLK];
static int nblocks = 0;
static vm_policy pol;
static vm_report rep;
static size_t alloc_seq = 0;
static vm_hdr *last_freed = NULL;

void vm_init(size_t arena_bytes) {
    if (arena) {
        return;
    }
    arena_size = arena_bytes;
    arena = mmap(NULL, arena_size, PROT_READ | PROT_WRITE, MAP_PRIVATE | MAP_ANONYMOUS | MAP_NORESERVE, -1, 0);
    if (arena == MAP_FAILED) {
        perror("vmalloc arena");
        exit(3);
    }
}

void vm_begin_case(const vm_policy *p) {
    if (!arena) {
        vm_init((size_t)256 << 20);
    }
    if (p) {
        pol = *p;
    } else {
        memset(&pol, 0, sizeof pol);
        pol.fill = 0xCD;
        pol.max_request = (size_t)1 << 40;
    }
    if (pol.max_request == 0) {
        pol.max_request = (size_t)1 << 40;
    }
    memset(&rep, 0, sizeof rep);
    arena_off = 0;
    nblocks = 0;
    alloc_seq = 0;
    last_freed = NULL;
    vm_active = 1;
}

static int rz_ok(const uint8_t *p) {
    for (int i = 0; i < VM_RZ; i++) {
        if (p[i] != 0xFD) {
            return 0;
        }
    }
    return 1;
}
static void check_block(vm_hdr *h) {
    uint8_t *front = (uint8_t *)(h + 1);
    uint8_t *payload = front + VM_RZ;
    if (!rz_ok(front)) {
        rep.underflows++;
        if (!rep.first_bad_site) {
            rep.first_bad_site = h->site;
            rep.first_bad_size = h->size;
        }
    }
    if (!rz_ok(payload + h->size)) {
        rep.overflows++;
        if (!rep.first_bad_site) {
            rep.first_bad_site = h->site;
            rep.first_bad_size = h->size;
        }
    }
}

void vm_end_case(vm_report *out) {
    vm_active = 0;
    for (int i = 0; i < nblocks; i++) {
        if (!blocks[i]->freed) {
            rep.leaks++;
            rep.leaked_bytes += blocks[i]->size;
            if (!rep.first_leak_site) {
                rep.first_leak_site = blocks[i]->site;
                rep.first_leak_size = blocks[i]->size;
            }
            check_block(blocks[i]);
        }
    }
    rep.allocs = alloc_seq;
    if (out) {
        *out = rep;
    }
}
/* leave the case open but stop serving: used when harness code must run between library calls */
void vm_pause(void) { vm_active = 0; }
void vm_resume(void) { vm_active = 1; }
/* harness bookkeeping (strdup of failure records etc.) must never be served from the per-case arena */
int vm_suspend(void) {
    int was = vm_active;
    vm_active = 0;
    return was;
}
void vm_restore(int was) { vm_active = was; }
size_t vm_alloc_count(void) { return alloc_seq; }
int vm_live_blocks(void) {
    int n = 0;
    for (int i = 0; i < nblocks; i++) {
        n += !blocks[i]->freed;
    }
    return n;
}
void vm_set_fail(size_t k1, size_t k2) {
    pol.fail_k1 = k1;
    pol.fail_k2 = k2;
}

static int in_arena(const void *p) { return arena && (const uint8_t *)p >= arena && (const uint8_t *)p < arena + arena_size; }

static void *vm_alloc(size_t size, void *site, int zero) {
    alloc_seq++;
    if (size > rep.largest_request) {
        rep.largest_request = size;
    }
    if (alloc_seq <= 64) {
        rep.sites[alloc_seq - 1] = site;
        rep.sizes[alloc_seq - 1] = size;
    }
    if ((pol.fail_k1 && alloc_seq == pol.fail_k1) || (pol.fail_k2 && alloc_seq == pol.fail_k2) ||
        (pol.fail_from && alloc_seq >= pol.fail_from)) {
        rep.injected++;
        if (!rep.failed_site) {
            rep.failed_site = site;
        }
        return NULL;
    }
    if (size > pol.max_request) {
        rep.refused_large++;
        return NULL;
    }
    if (pol.recycle && last_freed && last_freed->size == size && !zero) {
        vm_hdr *h = last_freed;
        last_freed = NULL;
        h->freed = 0;
        h->site = site;
        return (uint8_t *)(h + 1) + VM_RZ; /* contents kept: stale data from the previous owner */
    }
    size_t need = sizeof(vm_hdr) + 2 * VM_RZ + ((size + 15) & ~(size_t)15) + 16;
    if (nblocks >= VM_MAXBLK || arena_off + need > arena_size) {
        rep.arena_exhausted++;
        return NULL;
    }
    vm_hdr *h = (vm_hdr *)(arena + arena_off);
    arena_off += need;
    h->magic = VM_MAGIC;
    h->size = size;
    h->site = site;
    h->freed = 0;
    h->idx = nblocks;
    blocks[nblocks++] = h;
    uint8_t *front = (uint8_t *)(h + 1);
    memset(front, 0xFD, VM_RZ);
    uint8_t *payload = front + VM_RZ;
    memset(payload, zero ? 0 : pol.fill, size);
    memset(payload + size, 0xFD, VM_RZ);
    return payload;
}

static void vm_free(void *p) {
    vm_hdr *h = (vm_hdr *)((uint8_t *)p - VM_RZ) - 1;
    if (h->magic != VM_MAGIC) {
        rep.bad_frees++;
        return;
    }
    if (h->freed) {
        rep.double_frees++;
        return;
    }
    check_block(h);
    h->freed = 1;
    if (pol.recycle) {
        last_freed = h;
    } else if (pol.poison_freed) {
        memset((uint8_t *)(h + 1) + VM_RZ, 0xDD, h->size);
    }
}

void *__wrap_malloc(size_t n) {
    if (!vm_active) {
        return __real_malloc(n);
    }
    return vm_alloc(n, __builtin_return_address(0), 0);
}
void *__wrap_calloc(size_t a, size_t b) {
    if (!vm_active) {
        return __real_calloc(a, b);
    }
    size_t n;
    if (__builtin_mul_overflow(a, b, &n)) {
        alloc_seq++;
        return NULL;
    }
    return vm_alloc(n, __builtin_return_address(0), 1);
}
void *__wrap_realloc(void *p, size_t n) {
    if (p && !in_arena(p)) {
        return __real_realloc(p, n);
    }
    if (!vm_active && !p) {
        return __real_realloc(p, n);
    }
    if (!p) {
        return vm_alloc(n, __builtin_return_address(0), 0);
    }
    /* arena block */
    vm_hdr *h = (vm_hdr *)((uint8_t *)p - VM_RZ) - 1;
    int was = vm_active;
    vm_active = 1;
    void *q = vm_alloc(n, __builtin_return_address(0), 0);
    vm_active = was;
    if (!q) {
        return NULL; /* original block untouched, as realloc specifies */
    }
    memcpy(q, p, h->size < n ? h->size : n);
    vm_free(p);
    return q;
}
void __wrap_free(void *p) {
    if (!p) {
        return;
    }
    if (in_arena(p)) {
        vm_free(p);
        return;
    }
    __real_free(p);
}

#else /* VM_PASSTHROUGH */
void vm_init(size_t n) { (void)n; }
void vm_begin_case(const vm_policy *p) { (void)p; }
void vm_end_case(vm_report *out) {
    if (out) {
        memset(out, 0, sizeof *out);
    }
}
void vm_pause(void) {}
void vm_resume(void) {}
int vm_suspend(void) { return 0; }
void vm_restore(int was) { (void)was; }
size_t vm_alloc_count(void) { return 0; }
int vm_live_blocks(void) { return 0; }
void vm_set_fail(size_t a, size_t b) {
    (void)a;
    (void)b;
}
#endif
