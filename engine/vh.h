/* vh.h - shared harness engine for the bounded-exhaustive checks.
 *
 * One translation unit per harness includes this header once. It provides:
 *   - argument parsing (--tier, --shard i/n, --deadline S, --out F, --replay K)
 *   - sections and case indexing (deterministic; shard = idx mod n; replay = one idx)
 *   - counters, class-key sets (distinct_nontrivial), samples, flags
 *   - failure records deduplicated on (api, kind, trigger)
 *   - guard-page buffers and SIGSEGV/SIGBUS/SIGFPE/abort recovery (sandbox)
 *   - JSON output of the shard result
 * No randomness anywhere: every enumeration is a deterministic indexed sequence.
 */
#ifndef VH_H
#define VH_H
#define _GNU_SOURCE
#include <inttypes.h>
#include <setjmp.h>
#include <signal.h>
#include <sys/time.h>
#include <stdarg.h>
#include <stddef.h>
#include <stdbool.h>
#include <stdint.h>
#include <stdio.h>
#include <stdlib.h>
#include <string.h>
#include <sys/mman.h>
#include <time.h>
#include <unistd.h>

/* ------------------------------------------------------------------ args */
static const char *vh_tier = "quick";
static int vh_thorough = 0;
static unsigned vh_shard = 0, vh_nshards = 1;
static double vh_deadline_s = 1e9;
static const char *vh_out = NULL;
static const char *vh_replay = NULL; /* "section#idx" or harness-specific */
static char vh_replay_section[128];
static uint64_t vh_replay_idx = 0;
static int vh_verbose = 0;
static double vh_t0;

static double vh_now(void) {
    struct timespec ts;
    clock_gettime(CLOCK_MONOTONIC, &ts);
    return ts.tv_sec + ts.tv_nsec * 1e-9;
}

static int vh_deadline_flag = 0;
static inline int vh_deadline_hit(void) {
    static unsigned tick = 0;
    if (vh_deadline_flag) {
        return 1;
    }
    if ((++tick & 0x3ff) == 0) {
        if (vh_now() - vh_t0 > vh_deadline_s) {
            vh_deadline_flag = 1;
        }
    }
    return vh_deadline_flag;
}
/* uncounted immediate test (for coarse loops) */
static inline int vh_deadline_now(void) {
    if (!vh_deadline_flag && vh_now() - vh_t0 > vh_deadline_s) {
        vh_deadline_flag = 1;
    }
    return vh_deadline_flag;
}

/* harnesses that link the interposed allocator: bookkeeping allocations bypass its per-case arena */
int vm_suspend(void) __attribute__((weak));
void vm_restore(int) __attribute__((weak));
#define VH_NOVM_BEGIN int vmwas_ = vm_suspend ? vm_suspend() : 0
#define VH_NOVM_END                                                                                                \
    do {                                                                                                           \
        if (vm_restore) {                                                                                          \
            vm_restore(vmwas_);                                                                                    \
        }                                                                                                          \
    } while (0)

/* ------------------------------------------------------------ string set */
typedef struct vh_ent {
    char *key;
    char *sample;
    uint64_t n;
    struct vh_ent *next;
} vh_ent;
#define VH_HB 4096
typedef struct vh_set {
    vh_ent *b[VH_HB];
    size_t count;
} vh_set;
static uint64_t vh_hash(const char *s) {
    uint64_t h = 1469598103934665603ULL;
    while (*s) {
        h ^= (uint8_t)*s++;
        h *= 1099511628211ULL;
    }
    return h;
}
static vh_ent *vh_set_get(vh_set *s, const char *key, int create) {
    uint64_t h = vh_hash(key) % VH_HB;
    for (vh_ent *e = s->b[h]; e; e = e->next) {
        if (strcmp(e->key, key) == 0) {
            return e;
        }
    }
    if (!create) {
        return NULL;
    }
    VH_NOVM_BEGIN;
    vh_ent *e = calloc(1, sizeof(*e));
    e->key = strdup(key);
    VH_NOVM_END;
    e->next = s->b[h];
    s->b[h] = e;
    s->count++;
    return e;
}

static vh_set vh_counters, vh_classes, vh_flags, vh_info;

static void vh_count(const char *name, uint64_t n) {
    vh_set_get(&vh_counters, name, 1)->n += n;
}
static void vh_flag(const char *name, int v) {
    vh_set_get(&vh_flags, name, 1)->n = (uint64_t)v;
}
static void vh_infostr(const char *name, const char *fmt, ...) {
    char buf[2048];
    va_list ap;
    va_start(ap, fmt);
    vsnprintf(buf, sizeof buf, fmt, ap);
    va_end(ap);
    vh_ent *e = vh_set_get(&vh_info, name, 1);
    VH_NOVM_BEGIN;
    free(e->sample);
    e->sample = strdup(buf);
    VH_NOVM_END;
}
/* register that a case of class `key` was explored; first sample is kept */
static int vh_class_s(const char *key, const char *sample) {
    vh_ent *e = vh_set_get(&vh_classes, key, 1);
    e->n++;
    if (!e->sample && sample) {
        VH_NOVM_BEGIN;
        e->sample = strdup(sample);
        VH_NOVM_END;
        return 1;
    }
    return e->n == 1;
}
#define vh_class(key, ...)                                                     \
    do {                                                                       \
        vh_ent *e_ = vh_set_get(&vh_classes, (key), 1);                        \
        if (e_->n++ == 0) {                                                    \
            char sb_[1024];                                                    \
            snprintf(sb_, sizeof sb_, __VA_ARGS__);                            \
            VH_NOVM_BEGIN;                                                     \
            e_->sample = strdup(sb_);                                          \
            VH_NOVM_END;                                                       \
        }                                                                      \
    } while (0)

/* ------------------------------------------------------------- failures */
typedef struct vh_failure {
    char *api, *kind, *trigger, *casekey, *detail;
    uint64_t n;
    struct vh_failure *next;
} vh_failure;
static vh_failure *vh_failures = NULL;
static size_t vh_nfailkeys = 0;
static uint64_t vh_nfail = 0;

static char vh_section[128] = "";
static uint64_t vh_idx = 0; /* index of the case in flight within section */

static void vh_fail(const char *api, const char *kind, const char *trigger,
                    const char *fmt, ...) {
    char detail[4096];
    va_list ap;
    va_start(ap, fmt);
    vsnprintf(detail, sizeof detail, fmt, ap);
    va_end(ap);
    vh_nfail++;
    for (vh_failure *f = vh_failures; f; f = f->next) {
        if (!strcmp(f->api, api) && !strcmp(f->kind, kind) &&
            !strcmp(f->trigger, trigger)) {
            f->n++;
            return;
        }
    }
    if (vh_nfailkeys > 400) {
        return; /* flood guard; count is still kept in vh_nfail */
    }
    VH_NOVM_BEGIN;
    vh_failure *f = calloc(1, sizeof(*f));
    f->api = strdup(api);
    f->kind = strdup(kind);
    f->trigger = strdup(trigger);
    char ck[256];
    snprintf(ck, sizeof ck, "%s#%" PRIu64, vh_section, vh_idx);
    f->casekey = strdup(ck);
    f->detail = strdup(detail);
    VH_NOVM_END;
    f->n = 1;
    f->next = vh_failures;
    vh_failures = f;
    vh_nfailkeys++;
    if (vh_verbose || vh_replay) {
        fprintf(stderr, "FAIL api=%s kind=%s trigger=%s case=%s :: %s\n", api,
                kind, trigger, ck, detail);
    }
}

/* ------------------------------------------------------ sections / cases */
/* returns 0 when the section must be skipped (replay of another section) */
static int vh_section_begin(const char *name) {
    snprintf(vh_section, sizeof vh_section, "%s", name);
    vh_idx = (uint64_t)-1;
    if (vh_replay && strcmp(vh_replay_section, name) != 0) {
        return 0;
    }
    return 1;
}
/* advance to next case; returns 1 if this process must execute it */
static inline int vh_case(void) {
    vh_idx++;
    if (vh_replay) {
        return vh_idx == vh_replay_idx;
    }
    return (vh_idx % vh_nshards) == vh_shard;
}
/* after loop: in replay mode nothing else to do */

/* ---------------------------------------------------------- JSON output */
static void vh_json_str(FILE *f, const char *s) {
    fputc('"', f);
    for (; *s; s++) {
        unsigned char c = (unsigned char)*s;
        if (c == '"' || c == '\\') {
            fputc('\\', f);
            fputc(c, f);
        } else if (c < 0x20) {
            fprintf(f, "\\u%04x", c);
        } else {
            fputc(c, f);
        }
    }
    fputc('"', f);
}
static void vh_json_set(FILE *f, vh_set *s, int with_sample, int as_bool) {
    fputc('{', f);
    int first = 1;
    for (int i = 0; i < VH_HB; i++) {
        for (vh_ent *e = s->b[i]; e; e = e->next) {
            if (!first) {
                fputc(',', f);
            }
            first = 0;
            vh_json_str(f, e->key);
            fputc(':', f);
            if (with_sample == 2) {
                vh_json_str(f, e->sample ? e->sample : "");
            } else if (with_sample) {
                fprintf(f, "{\"n\":%" PRIu64 ",\"sample\":", e->n);
                vh_json_str(f, e->sample ? e->sample : "");
                fputc('}', f);
            } else if (as_bool) {
                fputs(e->n ? "true" : "false", f);
            } else {
                fprintf(f, "%" PRIu64, e->n);
            }
        }
    }
    fputc('}', f);
}
static void vh_write_out(void) {
    FILE *f = vh_out ? fopen(vh_out, "w") : stdout;
    if (!f) {
        perror("out");
        exit(3);
    }
    fprintf(f, "{\"shard\":%u,\"nshards\":%u,\"tier\":\"%s\",\"wall_s\":%.3f,"
               "\"deadline_hit\":%s,\"nfail\":%" PRIu64 ",\n\"counters\":",
            vh_shard, vh_nshards, vh_tier, vh_now() - vh_t0,
            vh_deadline_flag ? "true" : "false", vh_nfail);
    vh_json_set(f, &vh_counters, 0, 0);
    fputs(",\n\"flags\":", f);
    vh_json_set(f, &vh_flags, 0, 1);
    fputs(",\n\"info\":", f);
    vh_json_set(f, &vh_info, 2, 0);
    fputs(",\n\"classes\":", f);
    vh_json_set(f, &vh_classes, 1, 0);
    fputs(",\n\"failures\":[", f);
    int first = 1;
    for (vh_failure *x = vh_failures; x; x = x->next) {
        if (!first) {
            fputc(',', f);
        }
        first = 0;
        fputs("\n{\"api\":", f);
        vh_json_str(f, x->api);
        fputs(",\"kind\":", f);
        vh_json_str(f, x->kind);
        fputs(",\"trigger\":", f);
        vh_json_str(f, x->trigger);
        fputs(",\"case\":", f);
        vh_json_str(f, x->casekey);
        fputs(",\"detail\":", f);
        vh_json_str(f, x->detail);
        fprintf(f, ",\"n\":%" PRIu64 "}", x->n);
    }
    fputs("]}\n", f);
    if (f != stdout) {
        fclose(f);
    }
}

static void vh_init(int argc, char **argv) {
    vh_t0 = vh_now();
    for (int i = 1; i < argc; i++) {
        if (!strcmp(argv[i], "--tier") && i + 1 < argc) {
            vh_tier = argv[++i];
            vh_thorough = !strcmp(vh_tier, "thorough");
        } else if (!strcmp(argv[i], "--shard") && i + 1 < argc) {
            sscanf(argv[++i], "%u/%u", &vh_shard, &vh_nshards);
        } else if (!strcmp(argv[i], "--deadline") && i + 1 < argc) {
            vh_deadline_s = atof(argv[++i]);
        } else if (!strcmp(argv[i], "--out") && i + 1 < argc) {
            vh_out = argv[++i];
        } else if (!strcmp(argv[i], "--replay") && i + 1 < argc) {
            vh_replay = argv[++i];
            const char *h = strrchr(vh_replay, '#');
            if (h) {
                size_t n = (size_t)(h - vh_replay);
                if (n >= sizeof vh_replay_section) {
                    n = sizeof vh_replay_section - 1;
                }
                memcpy(vh_replay_section, vh_replay, n);
                vh_replay_section[n] = 0;
                vh_replay_idx = strtoull(h + 1, NULL, 10);
            }
        } else if (!strcmp(argv[i], "-v")) {
            vh_verbose = 1;
        }
    }
    if (vh_nshards == 0) {
        vh_nshards = 1;
    }
}

/* -------------------------------------------------------------- sandbox */
/* Guard buffers: `n` legal bytes ending exactly at a PROT_NONE region.
 * A canary band of VH_CANARY bytes precedes the buffer. */
#define VH_GUARD_BYTES (1u << 20)
#define VH_CANARY 64
#define VH_MAXGB 8
typedef struct vh_gbuf {
    uint8_t *lead;     /* leading PROT_NONE page */
    uint8_t *map;      /* first usable byte */
    size_t maplen;     /* total mapping */
    size_t cap;        /* usable bytes before the guard (page multiple) */
    uint8_t *guard;    /* start of PROT_NONE */
    uint8_t *p;        /* current buffer start = guard - n */
    size_t n;
} vh_gbuf;
static vh_gbuf vh_gb[VH_MAXGB];

static void vh_gb_init(int slot, size_t maxbytes) {
    size_t pg = 4096;
    size_t cap = ((maxbytes + VH_CANARY + pg - 1) / pg + 1) * pg;
    vh_gbuf *g = &vh_gb[slot];
    /* layout: [lead guard page PROT_NONE][cap usable bytes][VH_GUARD_BYTES PROT_NONE] */
    g->maplen = pg + cap + VH_GUARD_BYTES;
    uint8_t *base = mmap(NULL, g->maplen, PROT_READ | PROT_WRITE, MAP_PRIVATE | MAP_ANONYMOUS, -1, 0);
    if (base == MAP_FAILED) {
        perror("mmap");
        exit(3);
    }
    g->lead = base;
    g->map = base + pg;
    g->cap = cap;
    g->guard = g->map + cap;
    if (mprotect(g->guard, VH_GUARD_BYTES, PROT_NONE) != 0 || mprotect(base, pg, PROT_NONE) != 0) {
        perror("mprotect");
        exit(3);
    }
}
/* n bytes starting right after the leading guard page (an access below the buffer faults) */
static uint8_t *vh_gb_get_lo(int slot, size_t n, int fill) {
    vh_gbuf *g = &vh_gb[slot];
    if (n > g->cap) {
        fprintf(stderr, "vh_gb_get_lo: slot %d too small\n", slot);
        exit(3);
    }
    g->p = g->map;
    g->n = n;
    if (fill >= 0) {
        memset(g->p, fill, n);
    }
    return g->p;
}
/* carve n bytes ending at the guard; fill with `fill`; set canary before */
static uint8_t *vh_gb_get(int slot, size_t n, int fill) {
    vh_gbuf *g = &vh_gb[slot];
    if (n + VH_CANARY > g->cap) {
        fprintf(stderr, "vh_gb_get: slot %d too small (%zu > %zu)\n", slot, n,
                g->cap);
        exit(3);
    }
    g->p = g->guard - n;
    g->n = n;
    memset(g->p - VH_CANARY, 0xC9, VH_CANARY);
    if (fill >= 0) {
        memset(g->p, fill, n);
    }
    return g->p;
}
static int vh_gb_canary_ok(int slot) {
    vh_gbuf *g = &vh_gb[slot];
    for (size_t i = 0; i < VH_CANARY; i++) {
        if (g->p[-(ptrdiff_t)VH_CANARY + (ptrdiff_t)i] != 0xC9) {
            return 0;
        }
    }
    return 1;
}

/* fault recovery */
static sigjmp_buf vh_jmp;
static volatile sig_atomic_t vh_armed = 0;
static volatile int vh_fault_kind = 0;  /* 1 guard overrun, 2 other crash, 3 assert/abort, 4 alarm */
static volatile int vh_fault_slot = -1;
static volatile long vh_fault_off = 0;
static void *volatile vh_fault_addr = NULL; /* faulting address of the last SIGSEGV / SIGBUS */
static char vh_fault_msg[256];

/* watchdog (opt-in, vh_watchdog(period)): a periodic SIGALRM; when no sandboxed call has begun or ended between two
 * ticks while one is in flight, that call is treated as hung (fault kind 4). Costs nothing per call. */
static volatile uint64_t vh_progress = 0, vh_progress_seen = 0;
static volatile int vh_watchdog_on = 0;
static void vh_sig(int sig, siginfo_t *si, void *uc) {
    (void)uc;
    if (sig == SIGALRM && vh_watchdog_on) {
        if (!vh_armed || vh_progress != vh_progress_seen) {
            vh_progress_seen = vh_progress;
            return; /* progress since the last tick (or nothing in flight) */
        }
        snprintf(vh_fault_msg, sizeof vh_fault_msg, "no progress for a whole watchdog period");
    }
    if (!vh_armed) {
        /* fault outside a sandboxed call: die loudly with case info */
        char b[256];
        int n = snprintf(b, sizeof b,
                         "HARNESS-CRASH sig=%d section=%s idx=%llu\n", sig,
                         vh_section, (unsigned long long)vh_idx);
        if (write(2, b, (size_t)n) < 0) {
        }
        _exit(70);
    }
    vh_fault_kind = 2;
    vh_fault_slot = -1;
    if (sig == SIGALRM) {
        vh_fault_kind = 4;
    } else if (sig == SIGABRT) {
        vh_fault_kind = 3;
    } else if (sig == SIGSEGV || sig == SIGBUS) {
        uint8_t *a = (uint8_t *)si->si_addr;
        vh_fault_addr = a;
        for (int i = 0; i < VH_MAXGB; i++) {
            if (vh_gb[i].map && a >= vh_gb[i].guard &&
                a < vh_gb[i].guard + VH_GUARD_BYTES) {
                vh_fault_kind = 1;
                vh_fault_slot = i;
                vh_fault_off = (long)(a - vh_gb[i].guard);
            }
            if (vh_gb[i].map && a >= vh_gb[i].lead && a < vh_gb[i].map) { /* underrun into the lead guard */
                vh_fault_kind = 1;
                vh_fault_slot = i;
                vh_fault_off = -(long)(vh_gb[i].map - a);
            }
        }
    }
    vh_armed = 0;
    siglongjmp(vh_jmp, 1);
}
static void vh_sandbox_init(void) {
    static uint8_t altstack[1 << 16];
    stack_t ss = {.ss_sp = altstack, .ss_size = sizeof altstack, .ss_flags = 0};
    sigaltstack(&ss, NULL);
    struct sigaction sa;
    memset(&sa, 0, sizeof sa);
    sa.sa_sigaction = vh_sig;
    sa.sa_flags = SA_SIGINFO | SA_ONSTACK | SA_NODEFER;
    sigemptyset(&sa.sa_mask);
    sigaction(SIGSEGV, &sa, NULL);
    sigaction(SIGBUS, &sa, NULL);
    sigaction(SIGFPE, &sa, NULL);
    sigaction(SIGILL, &sa, NULL);
    sigaction(SIGABRT, &sa, NULL);
    sigaction(SIGALRM, &sa, NULL);
}
/* assert interception for debug builds: record and unwind */
void __assert_fail(const char *assertion, const char *file, unsigned int line,
                   const char *function) {
    snprintf(vh_fault_msg, sizeof vh_fault_msg, "assert(%s) %s:%u %s",
             assertion, file, line, function);
    if (vh_armed) {
        vh_fault_kind = 3;
        vh_armed = 0;
        siglongjmp(vh_jmp, 1);
    }
    fprintf(stderr, "HARNESS assert outside sandbox: %s\n", vh_fault_msg);
    _exit(71);
}
/* usage: if (SB_ENTER()) { call library; SB_LEAVE(); } else { fault info in vh_fault_* } */
#define SB_ENTER() (vh_fault_kind = 0, vh_fault_msg[0] = 0, vh_progress++, sigsetjmp(vh_jmp, 1) == 0 ? (vh_armed = 1, 1) : 0)
#define SB_LEAVE() (vh_armed = 0, vh_progress++)
static void vh_watchdog(int period_s) {
    struct itimerval it;
    memset(&it, 0, sizeof it);
    it.it_interval.tv_sec = period_s;
    it.it_value.tv_sec = period_s;
    vh_watchdog_on = 1;
    setitimer(ITIMER_REAL, &it, NULL);
}

static const char *vh_fault_name(void) {
    switch (vh_fault_kind) {
    case 1:
        return "guard_overrun";
    case 2:
        return "crash";
    case 3:
        return "assert_or_abort";
    case 4:
        return "hang";
    default:
        return "none";
    }
}

/* hex helper */
static const char *vh_hex(const uint8_t *p, size_t n) {
    static char bufs[4][600];
    static int k = 0;
    char *b = bufs[k++ & 3];
    size_t m = n > 280 ? 280 : n;
    for (size_t i = 0; i < m; i++) {
        sprintf(b + 2 * i, "%02x", p[i]);
    }
    b[2 * m] = 0;
    if (m < n) {
        strcat(b, "..");
    }
    return b;
}

#endif /* VH_H */
