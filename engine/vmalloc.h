#ifndef VMALLOC_H
#define VMALLOC_H
#include <stddef.h>
#include <stdint.h>

typedef struct vm_policy {
    uint8_t fill;        /* byte pattern of fresh malloc blocks (calloc always zero) */
    int poison_freed;    /* fill freed blocks with 0xDD */
    int recycle;         /* hand the most recently freed block of equal size back with contents kept */
    size_t fail_k1;      /* 1-based index of an allocation that fails (0 = none) */
    size_t fail_k2;      /* second failing allocation (0 = none) */
    size_t fail_from;    /* every allocation with index >= fail_from fails (0 = none) */
    size_t max_request;  /* requests above this are refused and recorded (0 = 1 TiB) */
} vm_policy;

typedef struct vm_report {
    size_t allocs;
    size_t leaks, leaked_bytes;
    size_t overflows, underflows;
    size_t bad_frees, double_frees;
    size_t largest_request;
    size_t refused_large;
    size_t injected;
    size_t arena_exhausted;
    void *first_bad_site;
    size_t first_bad_size;
    void *first_leak_site;
    size_t first_leak_size;
    void *failed_site;
    void *sites[64];
    size_t sizes[64];
} vm_report;

void vm_init(size_t arena_bytes);
void vm_begin_case(const vm_policy *p);
void vm_end_case(vm_report *out);
void vm_pause(void);
void vm_resume(void);
int vm_suspend(void);
void vm_restore(int was);
size_t vm_alloc_count(void);
int vm_live_blocks(void);
void vm_set_fail(size_t k1, size_t k2);
#endif
