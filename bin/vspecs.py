"""Build configurations and per-property check specifications for vcheck."""

import os as _os

_SRC = _os.path.join(_os.environ.get("VARINT_REPO", "/repo"), "src")


def _discover_libs():
    """Every library translation unit of /repo/src as it is now (test drivers and the benchmark excluded), so that a
    change that adds or splits a source file still links."""
    out = []
    try:
        for fn in sorted(_os.listdir(_SRC)):
            if fn.endswith(".c") and not fn.endswith("Test.c") and fn not in ("varintCompare.c",):
                out.append(fn)
    except OSError:
        pass
    return out


LIBS_ALL = _discover_libs()
LIBS_SCALAR = LIBS_ALL
LIBS_ARRAY = LIBS_ALL

ASAN_ENV = {"ASAN_OPTIONS": "handle_segv=0:handle_sigbus=0:handle_abort=0:handle_sigfpe=0:allow_user_segv_handler=1:"
                            "detect_leaks=0:halt_on_error=0:detect_stack_use_after_return=0:print_summary=0:"
                            "max_allocation_size_mb=4096:allocator_may_return_null=1"}

CONFIGS = {
    # the effective flags of /repo/_build (RelWithDebInfo): what users run, asserts off
    "pinned": dict(cc="cc", cflags=["-std=gnu11", "-O2", "-g", "-DNDEBUG", "-fPIC", "-mtune=native"]),
    # unoptimised, asserts on (harness intercepts __assert_fail)
    "debug": dict(cc="cc", cflags=["-std=gnu11", "-O0", "-g", "-fPIC"]),
    # SIMD paths (AVX2 / AVX-512VL / F16C on this CPU)
    "native": dict(cc="cc", cflags=["-std=gnu11", "-O2", "-g", "-DNDEBUG", "-fPIC", "-march=native"]),
    # the intermediate x86-64 micro-architecture levels: the library selects code paths on __SSE4_1__, __AVX2__,
    # __F16C__ (and a change may add others: __BMI2__, __POPCNT__ ...); pinned = none, v2 = SSE4.2/POPCNT,
    # bmi = v2 + BMI1/BMI2/LZCNT/F16C/FMA/MOVBE without AVX2, native = everything this CPU has (AVX2 + AVX-512).
    # The AVX2-only level (x86-64-v3) is an OPTIONAL member of the space: src/varintFOR.c uses _mm256_min/max_epu64
    # (AVX-512VL) under #if __AVX2__, so the unchanged library does not compile there (see DESIGN.md section 8).
    "v2": dict(cc="cc", cflags=["-std=gnu11", "-O2", "-g", "-DNDEBUG", "-fPIC", "-march=x86-64-v2"]),
    # AVX2 without AVX-512VL: the unchanged tree does not compile here (varintFOR.c uses _mm256_min/max_epu64 under
    # __AVX2__); optional = explored whenever the tree at hand compiles in it, skipped (and reported as skipped) otherwise
    "v3": dict(cc="cc", cflags=["-std=gnu11", "-O2", "-g", "-DNDEBUG", "-fPIC", "-march=x86-64-v3"], optional=True),
    "bmi": dict(cc="cc", cflags=["-std=gnu11", "-O2", "-g", "-DNDEBUG", "-fPIC", "-march=x86-64-v2", "-mbmi", "-mbmi2",
                                 "-mlzcnt", "-mf16c", "-mfma", "-mmovbe"]),
    # the two documented compile-time switches of the split-full headers (grow-shrink-grow for a 255-value range)
    "maxrange": dict(cc="cc", cflags=["-std=gnu11", "-O2", "-g", "-DNDEBUG", "-fPIC", "-mtune=native",
                                      "-DVARINT_SPLIT_FULL_USE_MAXIMUM_RANGE", "-DVARINT_SPLIT_FULL_NO_ZERO_USE_MAXIMUM_RANGE"]),
    # strict ISO C mode, as the repository's own CMakeLists request (-std=c11): __STRICT_ANSI__ is defined, GNU-only
    # branches of the headers are not compiled. The harness needs _GNU_SOURCE for the POSIX declarations it uses.
    "c11": dict(cc="cc", cflags=["-std=c11", "-D_GNU_SOURCE", "-O2", "-g", "-DNDEBUG", "-fPIC", "-mtune=native"],
                libcflags=["-std=c11", "-O2", "-g", "-DNDEBUG", "-fPIC", "-mtune=native"]),
    # size-optimised build (MinSizeRel): __OPTIMIZE_SIZE__ is defined, the compiler prefers loops over unrolled code
    "os": dict(cc="cc", cflags=["-std=gnu11", "-Os", "-g", "-DNDEBUG", "-fPIC", "-mtune=native"]),
    # the Release flags of the repository's CMakeLists (-O3)
    "o3": dict(cc="cc", cflags=["-std=gnu11", "-O3", "-DNDEBUG", "-fPIC", "-mtune=native"]),
    # second, independent memory oracle
    "asan": dict(cc="clang", cflags=["-std=gnu11", "-O1", "-g", "-fsanitize=address", "-fsanitize-recover=address",
                                     "-fno-omit-frame-pointer", "-DVH_ASAN=1"], env=ASAN_ENV),
    "msan": dict(cc="clang", cflags=["-std=gnu11", "-O1", "-g", "-fsanitize=memory", "-fno-omit-frame-pointer",
                                     "-DVH_MSAN=1"],
                 env={"MSAN_OPTIONS": "halt_on_error=1:exit_code=77:print_summary=0:handle_segv=0:handle_abort=0:"
                                      "allow_user_segv_handler=1"}),
}

SCALAR_RULE = ("complete enumeration of the value alphabet V64 (exhaustive prefix [0,2^P), boundary windows +-3 around "
               "every family boundary, the 5-symbols-per-byte product 5^8, byte sweeps, walking bits) through every "
               "entry point of every scalar family on the real code (macro forms with an expression operand that differs on "
               "re-evaluation; the bounded tagged reader with 28 available-byte counts up to INT32_MAX; 1..16-byte wide "
               "external forms over a 150 x 150 product of 64-bit halves; macro hygiene: every operand position of 45 macros bound to 45 "
               "common identifiers and written as 5 compound shapes and as literals; the bit writer / reader directly at every start "
               "position 0..71 x width 1..64 and at far stream positions 2^31..2^42 in a PROT_NONE reservation); a class is "
               "a distinct (family, entry point, encoded length, alignment) combination reached")

WRAP_SCHED = ("-Wl,--wrap=malloc,--wrap=calloc,--wrap=realloc,--wrap=free,--wrap=memcpy,--wrap=memmove,--wrap=memset,"
              "--wrap=memcmp,--wrap=qsort,--wrap=pthread_mutex_lock,--wrap=pthread_mutex_unlock,--wrap=pthread_mutex_trylock")
# library (and the operation bodies that expand its macros) compiled with the compiler's TSan instrumentation but linked
# with OUR runtime (engine/vsched.c), not libtsan: every shared access becomes an event of the controlled scheduler
CONFIGS["tsanabi"] = dict(cc="clang", cflags=["-std=gnu11", "-O1", "-g", "-fPIC"],
                          libcflags=["-std=gnu11", "-O1", "-g", "-fPIC", "-DNDEBUG", "-fsanitize=thread"],
                          ldflags=[WRAP_SCHED])
# free-running cross-check with the real libtsan
CONFIGS["tsan"] = dict(cc="clang", cflags=["-std=gnu11", "-O1", "-g", "-fPIC", "-DNDEBUG", "-fsanitize=thread"],
                       env={"TSAN_OPTIONS": "halt_on_error=1:exitcode=66:report_signal_unsafe=0"})

# the same two with every instruction-set extension of this CPU (the library's AVX2 / AVX-512 paths)
CONFIGS["tsanabi-native"] = dict(cc="clang", cflags=["-std=gnu11", "-O1", "-g", "-fPIC"],
                                 libcflags=["-std=gnu11", "-O1", "-g", "-fPIC", "-DNDEBUG", "-fsanitize=thread", "-march=native"],
                                 ldflags=[WRAP_SCHED])
CONFIGS["tsan-native"] = dict(cc="clang", cflags=["-std=gnu11", "-O1", "-g", "-fPIC", "-DNDEBUG", "-fsanitize=thread", "-march=native"],
                              env={"TSAN_OPTIONS": "halt_on_error=1:exitcode=66:report_signal_unsafe=0"})

CHECKS = {}


def scalar(prop, rule, expl, dl_quick=100, dl_thorough=3600, configs=None):
    CHECKS[prop] = dict(
        name="scalar", harness=["checks/scalar.c"], libs=LIBS_SCALAR, hygiene=True,
        configs=configs or {"quick": ["pinned", "debug", "asan", "native", "maxrange", "os", "c11"], "thorough": ["pinned", "debug", "asan", "native", "v2", "bmi", "o3", "maxrange", "os", "c11"]},
        shards={"pinned": 16, "debug": 8, "asan": 8, "native": 8, "v2": 8, "bmi": 8, "o3": 8, "maxrange": 8, "os": 8, "c11": 8},
        deadline={"quick": dl_quick, "thorough": dl_thorough},
        # exhaustive prefix [0,2^P): P=32 in the optimised builds, 28 in the slow (unoptimised / sanitised) ones
        tier_env={"quick": {"pinned": {"VERIF_PREFIX_BITS": "24"}, "debug": {"VERIF_PREFIX_BITS": "22"},
                            "asan": {"VERIF_PREFIX_BITS": "22"}, "native": {"VERIF_PREFIX_BITS": "22"},
                            "maxrange": {"VERIF_PREFIX_BITS": "24"}, "os": {"VERIF_PREFIX_BITS": "22"}, "c11": {"VERIF_PREFIX_BITS": "22"}},
                  "thorough": {"debug": {"VERIF_PREFIX_BITS": "28"}, "asan": {"VERIF_PREFIX_BITS": "28"},
                               "v2": {"VERIF_PREFIX_BITS": "28"}, "bmi": {"VERIF_PREFIX_BITS": "28"},
                               "o3": {"VERIF_PREFIX_BITS": "28"}, "native": {"VERIF_PREFIX_BITS": "30"},
                               "maxrange": {"VERIF_PREFIX_BITS": "28"}, "os": {"VERIF_PREFIX_BITS": "28"}, "c11": {"VERIF_PREFIX_BITS": "28"}}},
        rule=rule, explanation=expl,
        assumptions=["reference encoders in /verif/ref are trusted (written from the documented formats)",
                     "2^64 values are covered exhaustively only below 2^P and over the stated alphabets beyond"],
    )


scalar("C01", SCALAR_RULE,
       "E-enum: every value of the alphabet is encoded by every entry point into a guard-page buffer at every "
       "alignment, decoded by every reader, and the four lengths compared; all bytes outside the encoding are "
       "checked unchanged under two backgrounds")
scalar("C04", SCALAR_RULE + "; oracle = independently written reference encoders, adjacent-pair length monotonicity; bit writer / "
       "reader: 72 start positions x 64 widths x 8 values, interleaved writer / reader, reserve-then-fill (16 positions x 64 field "
       "widths x 5 tails x 4 values), far positions 2^31..2^42",
       "E-enum with reference-encoder oracle: bytes equal the reference byte for byte, library decodes reference "
       "bytes, len(v) <= len(v+1) on every adjacent pair of the exhaustive prefix and boundary windows")
scalar("C05", "all adjacent pairs (v,v+1) of the exhaustive prefix and boundary windows (decides all pairs of the "
              "range by transitivity of a total order on prefix-free codewords), all ordered pairs over the reduced "
              "boundary alphabet, all pairs of 2- and 3-tuples over small alphabets; class = (len a, len b, first "
              "differing byte position)",
       "E-enum over pairs: sign(memcmp(enc a, enc b)) == sign(a-b)",
       configs={"quick": ["pinned", "native", "os", "c11"], "thorough": ["pinned", "debug", "native", "bmi", "os", "c11"]})
scalar("C12", "all triples (stored value, width, amount) with stored value and target sum over the boundary alphabet "
              "(every sum on, below and above every width boundary upward and downward, every signed-overflow edge) "
              "x {grow, no-grow} x {tagged, external}; class = (family, mode, old width, new width, outcome)",
       "E-enum over triples against int64 reference arithmetic; slot followed by canaries and a guard page",
       configs={"quick": ["pinned", "debug", "native", "os", "c11"], "thorough": ["pinned", "debug", "asan", "native", "bmi", "os", "c11"]})

HOOK_COMMITS = []

ENGINES = [
    {"name": "E-enum", "path": "engine/vh.h + checks/*.c", "serves_properties": ["C01", "C02", "C03", "C04", "C05", "C06", "C07", "C09", "C10", "C11", "C12", "C13", "C14", "C16"],
     "kind_free_text": "stateless exhaustive enumeration of explicit finite input alphabets on the real code, guard-page "
                       "sandbox, reference-encoder / reference-model oracles"},
    {"name": "E-fault", "path": "checks/c18.c + engine/vmalloc.c", "serves_properties": ["C18"],
     "kind_free_text": "deviation-bounded enumeration of environment answers: the k-th allocation of a call fails, for every k "
                       "(and every pair), through a link-time interposed allocator with leak / redzone oracles"},
    {"name": "E-sched", "path": "engine/vsched.c + checks/c17.c", "serves_properties": ["C17"],
     "kind_free_text": "controlled scheduler over real pthreads with a TSan-ABI runtime of our own: memory events, conflict "
                       "computation, iterative context bounding"},
    {"name": "E-hist", "path": "checks/c15.c", "serves_properties": ["C15"],
     "kind_free_text": "enumeration of bounded call histories and stack/heap residues in forked children against fresh-process baselines"},
    {"name": "E-bfs", "path": "checks/bitmap_bfs.c", "serves_properties": ["C08"],
     "kind_free_text": "explicit-state breadth-first search over operation histories of the real object, state "
                       "deduplication on a canonical key, reference-model comparison after every transition"},
]

ALL_PROPS = ["C%02d" % i for i in range(1, 19)]


def not_applicable():
    out = []
    for p in ALL_PROPS:
        if p not in CHECKS or not CHECKS[p].get("registered", True):
            out.append({"property_id": p, "reason": "check not built yet in this revision of /verif (planned, see DESIGN.md); "
                                                    "not claimed until both tiers have run end to end"})
    return out


NOT_APPLICABLE = not_applicable()

ARRAY_RULE = ("every array of the corpus A (S1: all arrays of length 1-3 over a 20-value boundary alphabet, length 4-6 "
              "over {0,1,255,2^64-1}, length <=8 over {1,2}; S2: complete product of length class x shape x step x base "
              "x outlier pattern x magnitude, thinned for longer lengths, and every length 1..300/520; S3: adversarial families; "
              "S4: every length 1..72/300 x (minimum class, spread at both ends of each byte class, stride, 0-2 outliers, "
              "order); S2f: lengths 301..4200 (thorough: every one); S2q: 65536 and the 67823|67824 tagged-count boundary; giant: "
              "1,048,577 elements (clustered with the minimum at an odd index; all distinct), thorough optimised builds also "
              "3,000,000 and 16,777,215..16,777,217); S5: exactly 240/241/2287/2288/2289 nine-byte exceptions; S6: all 65536 values with bytes from {00,01,80,FF} "
              "(thorough; quick every 4th block of 256), once each / runs of 3 / ascending; S3 also: ascending with one displaced "
              "element or a 2^64-1 sentinel at 4 positions x 8 lengths around 32 and 128; constant-derived: "
              "value pairs whose difference is a convergent denominator of K / 2^64 for every odd 64-bit immediate K of the "
              "library's machine code) through every codec entry point on the real code, each typed input at 2 (thorough: 3) start "
              "alignments (flush against the guard page, 1 and 3 elements earlier), in each build configuration "
              "(pinned, -march=native, x86-64-v3 whenever the library compiles there - the unchanged tree does not, the evidence says so under configs_skipped; thorough also x86-64-v2, BMI2-without-AVX2, -O3, -Os, strict C11, -O0 with asserts, ASan); a class is a distinct (codec, header-length class, width class, exception / "
              "block structure) combination reached")


def arrays(prop, expl, rule_extra="", dl_quick=150, dl_thorough=7200, configs=None):
    CHECKS[prop] = dict(
        name="arrays", harness=["checks/arrays.c", "engine/vmalloc.c"], libs=LIBS_ALL, wrap_malloc=True, constant_alphabet=True,
        configs=configs or {"quick": ["pinned", "native", "v3"], "thorough": ["pinned", "native", "asan", "debug", "v2", "v3", "bmi", "o3", "os", "c11"]},
        shards={"pinned": 16, "native": 16, "asan": 16, "debug": 16, "v2": 16, "v3": 16, "bmi": 16, "o3": 16, "os": 16},
        deadline={"quick": dl_quick, "thorough": dl_thorough},
        tier_env={"thorough": {"pinned": {"VERIF_GIANT": "1"}, "native": {"VERIF_GIANT": "1"}}},
        rule=ARRAY_RULE + rule_extra, explanation=expl,
        assumptions=["oracle is the input array itself / ground truth recomputed by the harness",
                     "arrays longer than the corpus lengths and arbitrary (unstructured) long arrays are not enumerated"],
    )


arrays("C02", "E-enum: encode, copy the reported bytes into an exact-size guard-page buffer, decode with the original count, "
              "compare with the input; every random-access / block reader compared with the full decode at every index")
arrays("C03", rule_extra="; dictionary objects: fresh, rebuilt from another index-width class, rebuilt from a same-cardinality twin "
       "(narrower / wider entries) that was queried in between", expl="E-enum: the encoder's destination is a guard-page buffer of exactly the advertised size, so a write one byte "
              "past it faults; returned length <= advertised (== where documented exact)")
arrays("C13", configs={"quick": ["pinned"], "thorough": ["pinned", "native", "asan", "v2", "bmi"]}, expl="E-enum over (valid encoding, capacity c in 0..n, and where the encoding carries its count also 13 capacities above n up to 2^40) x (no fault, k-th allocation of the decode failing for every k): the output buffer holds exactly c elements before a "
              "PROT_NONE page; library-internal blocks carry redzones; result must be 0 or a correct prefix",
       rule_extra="; x every capacity 0..n (n <= 385 quick, 4097 thorough)")
arrays("C16", "E-enum: every metadata field and header accessor named by the property compared with ground truth "
              "(for the patched frame: the exception count must equal the number of frame cells holding the marker and every listed "
              "pair must name such a cell and the input's value) "
              "recomputed by the harness from the input and from the bytes written")
arrays("C06", "E-enum: adaptive auto-selection and every forced encoding whose domain contains the array, decoded from an "
              "exact-size copy; decision-tree path signatures counted; synthetic sweep of the selection function",
       "; class = (selected encoding, decision-tree path signature)")

CHECKS["C08"] = dict(
    name="bitmap_bfs", harness=["checks/bitmap_bfs.c"], libs=LIBS_ALL, engine="E-bfs",
    configs={"quick": ["pinned", "asan"], "thorough": ["pinned", "asan", "debug", "native"]},
    shards={"pinned": 16, "asan": 16, "debug": 16, "native": 16},
    deadline={"quick": 150, "thorough": 2400},
    rule="explicit-state breadth-first search over operation histories of two bitmap registers: alphabet of ~60 operations "
         "(add/remove at both sides of 4096 and of 65535, ranges shorter and longer than 4096 and of 65534 / 65535 / 65536 members, bulk add, clear, clone, "
         "register copy/swap, and/or/xor/andnot in both operand orders, serialise+deserialise), depth 3 (quick) / 4 "
         "(thorough), plus a complete small-universe scope {0..5} to depth 5/6 and a reduced alphabet to depth 5; plus the "
         "operand-shape product of the binary operations: a library of 23 sets of every container type and size class "
         "(1 to 65536 elements), all ordered pairs x {and, or, xor, andnot}, and against each library set every subset "
         "of size <=3 (thorough: <=4) of a 12-point probe alphabet placed relative to it, in both operand orders; bulk adds: 12 "
         "lists (every order class x size class 16..4100, with and without duplicates) onto every library set and cleared "
         "containers, followed by remove and serialise/deserialise; states "
         "deduplicated on (container type, cardinality, capacity, digest of contents) per register; a class is a distinct "
         "(scope, container types of A and B, cardinality class) or container-type transition",
    explanation="E-bfs on the real objects: after every transition membership on ~90 probes, cardinality, emptiness, "
                "ascending duplicate-free iteration and array export are compared with a 65536-bit reference set, mutator "
                "return values with the model, operands of binary operations re-observed; replay of every expanded history "
                "must reach the same canonical state",
    technique="explicit-state model checking (BFS over operation histories of the real object against a reference set)",
    assumptions=["the 65536-bit reference set and its bit operations are trusted",
                 "histories longer than the depth bound and operands outside the alphabet are not explored"],
)

CHECKS["C14"] = dict(
    name="c14", harness=["checks/c14.c", "engine/vmalloc.c"], wrap_malloc=True,
    libs=LIBS_ALL,
    configs={"quick": ["pinned", "asan"], "thorough": ["pinned", "asan", "debug", "native", "bmi", "os", "c11"]},
    shards={"pinned": 16, "asan": 16, "debug": 16},
    deadline={"quick": 150, "thorough": 5400},
    rule="byte-string alphabet B: all strings of length 0-2 over all 256 byte values, all strings of length 3-4 (quick) / "
         "3-6 (thorough) over a 12-byte alphabet {00,01,02,7f,80,f0,f1,f8,f9,fa,fe,ff}; bounded deviations from valid "
         "encodings of the corpus: every truncation length and every single-byte substitution (two substitutions in the "
         "thorough tier); tagged bounded reader: all 256 first bytes x n in 0..10 x 4 payload patterns (complete); each "
         "string handed to both dictionary decoders (4 capacities), both Elias array decoders (9 declared bit counts x 3 "
         "capacities x 2 fills of the bits past the limit), the bitmap deserialiser and the run counter; Elias extreme codes: "
         "0..70 leading zeros x 5 payload fills x 5 payload lengths x {alone, after valid codes}; class = "
         "(generator, length, first byte) / (deviation source family)",
    explanation="E-enum over hostile inputs: the input buffer ends exactly at a PROT_NONE page, the allocator refuses and "
                "records requests above 16 MiB, a 2 s timer is the horizon, outputs sit before guard pages; results must "
                "not depend on bits past the declared bit limit; accepted bitmaps are exercised through read-only observers",
    assumptions=["inputs longer than 6 arbitrary bytes are covered only as deviations (<= 2 substitutions, any truncation) "
                 "of valid encodings up to 400 bytes"],
)

CHECKS["C09"] = dict(
    name="packed", harness=["checks/packed.c"], libs=LIBS_ALL, engine="E-enum + E-bfs",
    configs={"quick": ["pinned", "debug", "native"], "thorough": ["pinned", "debug", "asan", "native", "bmi", "os", "c11"]},
    shards={"pinned": 16, "debug": 16, "asan": 16},
    tier_env={"thorough": {"pinned": {"VERIF_GIANT": "1"}}},
    deadline={"quick": 150, "thorough": 1500},
    rule="153 instantiations generated from src/varintPacked.h (every width 1-32 x slot type 8/16/32/64 with width <= slot + "
         "gcd(width, slot), the compact flavour where its automatic slot type satisfies the same rule, and the six parameter "
         "sets used in the tree); isolation: every element index of an array covering three periods of lcm(width, slot) x value "
         "alphabet (all values for width <= 8 quick / 12 thorough, else boundary + walking-bit values) x 4 backgrounds; sorted "
         "semantics: BFS to closure over sorted multisets of <= 7 elements on a 5-value alphabet; class = (width, slot, flavour, "
         "start bit in slot, one-/two-slot) and one class per instance for the sorted closure; plus 12 instances whose value type is wider than the width needs "
         "(PACK_STORAGE_VALUE_TYPE override at widths 8 / 16 / 32 and others), 21 narrow-length-type "
         "instances (PACK_MAX_ELEMENTS <= 255 / 65535), far elements: every index where the index, the bit offset, the byte "
         "offset or the slot index crosses 2^8, 2^15, 2^16, 2^24, 2^31, 2^32 (+-1) and the top of the index range, in a "
         "PROT_NONE reservation of 16 GiB where only the window pages are accessible (instances generated narrow-first and "
         "interleaved, so that each kind of instantiation is followed by ones relying on the header's defaults), and the sorted-array operations on arrays near the top of the narrow index ranges / of "
         "70000 elements",
    explanation="E-enum: after Set/SetIncr/SetHalf the whole storage including guard bytes equals a bit-array model and Get of "
                "every element equals the model; storage re-placed so that the slots the element occupies touch PROT_NONE pages "
                "on either side (any access to a slot it does not occupy faults). E-bfs: every reachable sorted state x every "
                "operation compared with a plain sorted array, Member = first equal or -1, BinarySearch = lower bound. Far "
                "elements: the window around the addressed slots equals the model and any access to another slot of the whole "
                "storage faults",
    technique="exhaustive enumeration of (instantiation, position, value, background) plus explicit-state closure of the sorted-array state space",
    assumptions=["widths above 32 are outside the property; the bit-array model is trusted"],
)

CHECKS["C11"] = dict(
    name="bitstream", harness=["checks/bitstream.c", "checks/bitstream32.c"], libs=LIBS_ALL, hygiene=True,
    configs={"quick": ["pinned", "debug", "native"], "thorough": ["pinned", "debug", "asan", "native", "bmi", "os", "c11"]},
    shards={"pinned": 16, "debug": 16, "asan": 16},
    deadline={"quick": 120, "thorough": 1200},
    rule="both supported word types (uint64_t default, uint32_t via VBITS/VBITSVAL) x every bit offset in [0, 3W) x every "
         "width 1..W x value alphabet (all values for width <= 8 quick / 12 thorough, else 0, 1, all-ones, all-ones-1, MSB, "
         "55.., AA.., walking one) x 4 prior contents; signed helpers: width 2..64 x all magnitudes for width <= 17, alphabet "
         "beyond; far offsets: 2^31 .. 2^40 and 2^42 + 12 deltas x 10 widths x 3 values x 2 priors x {Set then independent "
         "read, independent write then Get} in a PROT_NONE reservation of 2^42 bits where only the window pages are "
         "accessible (any access to another word faults); class = (word type, offset mod W, one-/two-word)",
    explanation="E-enum: after Set the stream plus two guard words on each side equals a bit-array model (MSB-first fields), Get "
                "returns the value, and with PROT_NONE pages directly after the last / before the first word overlapping the "
                "range any access to another word faults",
    assumptions=["word types other than uint64_t and uint32_t are not instantiated"],
)

CHECKS["C10"] = dict(
    name="dimension", harness=["checks/dimension.c"], libs=LIBS_ALL,
    engine="E-enum + E-bfs",
    configs={"quick": ["pinned", "native"], "thorough": ["pinned", "native", "debug", "asan", "bmi", "os", "c11"]},
    shards={"pinned": 16, "native": 16, "debug": 16, "asan": 16},
    deadline={"quick": 120, "thorough": 1200},
    rule="headers: all pairs over a 31-value boundary alphabet through Pack/Unpack (function and macro), all 72 (rows width, "
         "cols width) combinations x {min, min+1, max-1, max} through PairDimension/PairEncode into an exact-size guard buffer, "
         "all (x, y, sparse) through PAIR/DEPAIR; cells: rows in {0,1,2,3,5,16,17,255,256,257} x cols in {1,2,3,7,8,9,15,16,17,255,256,257,300} plus "
         "column counts of every width 2-8 (row 0 region) x entry kind in {bit set/clear/toggle, unsigned 1-8 bytes, float, "
         "double, half (native build)} x every cell (all cells up to 600, boundary cells beyond) x value alphabet x 2 "
         "backgrounds (the bit 'set' argument cycles through every truthy value class); histories: full reachability of 2x3 / "
         "3x3 bit matrices and a 2x2 byte matrix; sequences: two matrices of different shapes at one address, the second encoded "
         "in place or loaded (header copied in); far cells: 4 shapes up to 70000 x 70000 x 6 kinds x linear indices 2^29..2^33 "
         "(+-1) and the last cell, in a PROT_NONE reservation of 40 GiB; class = (kind, rows width, cols width) / header widths / "
         "pack dimension",
    explanation="E-enum against a reference buffer built with independent offset arithmetic: the whole matrix (header + cells, "
                "ending at a PROT_NONE page) must equal the reference after each write, and read-back returns the written value; "
                "E-bfs: every state of the small matrices x every operation compared with the model, closure reached",
    technique="exhaustive enumeration of (shape, cell, kind, value, background) plus explicit-state closure of small matrices",
    assumptions=["rows > 0 with more than 2^17 cells are not addressable in memory and are covered only through row 0"],
)

CHECKS["C07"] = dict(
    name="floatc", harness=["checks/floatc.c", "engine/vmalloc.c"], wrap_malloc=True,
    libs=LIBS_ALL,
    configs={"quick": ["pinned", "debug", "native"], "thorough": ["pinned", "debug", "asan", "native", "v2", "bmi", "os", "c11"]},
    shards={"pinned": 16, "debug": 16, "asan": 16},
    tier_env={"thorough": {"pinned": {"VERIF_GIANT": "1"}}},
    deadline={"quick": 150, "thorough": 1500},
    rule="double alphabet D = {sign} x {20 biased exponents incl. 0, 1, 1022-1024, 2046, 2047} x {~200 mantissas: 0, 1, all-ones, "
         "top-k-ones, top-k-ones-zero-ones, half-way patterns +-1 around the rounding position of each precision, patterns that "
         "carry out of the mantissa}; arrays: all singletons, all ordered pairs over a ~90/~90-value sub-alphabet (every exponent class x 4 mantissas + specials), all triples over "
         "~30 values, stride windows of length 9/17/64; x 4 precisions x 3 exponent modes; EncodeAuto: 30 requested errors "
         "(just below / at / above every mode bound and threshold) x singletons and pairs; class = (array shape, exponent class / "
         "exponent distance class / requested error)",
    explanation="E-enum with an exact integer oracle: FULL and special values bit-identical; reduced precision |dec-x| <= 2^-m |x| "
                "evaluated in 128-bit integers on the decomposed IEEE fields (infinity tolerated only when x rounds above DBL_MAX); "
                "EncodeAuto error <= requested error decomposed the same way; decoder consumes exactly the encoder's bytes from an "
                "exact-size guard copy; length <= varintFloatMaxEncodedSize",
    assumptions=["arrays longer than 64 doubles are not enumerated"],
)

CHECKS["C18"] = dict(
    name="c18", harness=["checks/c18.c", "engine/vmalloc.c"], wrap_malloc=True, engine="E-fault", count_alloc_sites=True,
    libs=LIBS_ALL,
    configs={"quick": ["pinned", "native"], "thorough": ["pinned", "debug", "native", "os", "c11"]},
    shards={"pinned": 16, "debug": 16},
    deadline={"quick": 150, "thorough": 2400},
    rule="~220 scenarios (every allocating API of dictionary, patched frame-of-reference, float, adaptive and bitmap on inputs "
         "chosen to reach every allocation site: <=16 and >16 dictionary entries, 0 and >0 PFOR exceptions, exact and sampled "
         "uniqueness, > 10000 elements with every 10th equal and the others distinct 9-byte / 3-byte values (the sample selects "
         "the dictionary whose encoding does / does not fit the adaptive bound), dictionary rebuilds across index-width classes (prior 8/100/300 entries x new 5/40/300/~10000 distinct) with "
         "the dictionary then used as it is, PFOR / adaptive inputs with exceptions plus in-range values equal to the 1- and 2-byte "
         "marker, the adaptive encoder writing into a destination of exactly varintAdaptiveMaxSize bytes before a guard page, "
         "every forced adaptive encoding and its decoder, bitmap create/clone/add/remove/ranges/bulk/decode on array, "
         "dense and run containers at both sides of 4096, set algebra on every pair of container kinds); for each scenario the "
         "fault-free allocation count N is measured and every k <= N is explored with the k-th allocation failing (bound 1; "
         "sequences longer than 300 identical insertions are thinned), thorough adds every pair k1 < k2 <= 41 (bound 2); class = "
         "(API, scenario input)",
    explanation="E-fault: exhaustive single (and double) allocation-failure injection through the interposed allocator; every "
                "block comes from a per-execution arena so the live set after the documented frees is the leak oracle; returned "
                "encodings are decoded fault-free and compared with the input, bitmaps observed completely and compared with a "
                "reference set (pre- or post-state), then driven through a follow-up sequence",
    technique="exhaustive fault enumeration (every k-th allocation fails, bound 1 and 2) on the real code with reference-model oracle",
    assumptions=["allocation is the only fault source the library has", "CountUnique/Analyze are documented as approximate: only sanity is demanded of them under faults"],
)

CHECKS["C15"] = dict(
    name="c15", harness=["checks/c15.c", "engine/vmalloc.c"], wrap_malloc=True, engine="E-hist",
    libs=LIBS_ALL,
    configs={"quick": ["pinned", "msan"], "thorough": ["pinned", "debug", "msan", "native", "os", "c11"]},
    shards={"pinned": 16, "debug": 16, "msan": 16},
    deadline={"quick": 150, "thorough": 1800},
    rule="operation alphabet O of ~115 calls (every encoder / decoder / sizing / metadata entry point on five small fixed inputs, "
         "two of them with equal element counts and different data plus a twin with the same count and sum but another minimum, every "
         "operation reading its input from ONE common caller buffer, matrices encoded in place and loaded from stored bytes, six "
         "operations on 10500-element inputs incl. the constant-stride-10-sample class); environment seam: rand/random/srand/"
         "lrand48/mrand48/drand48/time/clock are answered by the harness, every operation re-run fresh under 2 alternative answer "
         "streams; baseline = observable outputs (return values, output bytes up "
         "to the returned length, the metadata fields that carry meaning) of each operation alone in a fresh exec'ed process; "
         "explored in children forked from a parent that never called the library: every ordered pair (p, c) in O x O, thorough: "
         "every ordered triple over the ~30 operations that share element counts; residue: every c x 16 stack words (0, ~0, a5.., "
         "1..8 and the element counts) painted over 64 KiB below the frame x 3 heap fill bytes x {fresh blocks, recycled blocks "
         "with contents kept}; msan build: the same pairs, any use of uninitialised memory ends the child with exit code 77; class "
         "= (first operation of the pair) / (operation under residue)",
    explanation="bounded exhaustive enumeration of call histories (length 2, 3) and of one-deviation environments (stack / heap "
                "residue) on the real code; oracle = byte equality of the last call's observable outputs with its fresh-process "
                "baseline; MemorySanitizer as second oracle on the same histories",
    technique="exhaustive enumeration of bounded call histories and environment residues against fresh-process baselines (stateless model checking of history-independence)",
    assumptions=["histories longer than 3 calls and residues outside the alphabet are not explored",
                 "struct padding and metadata fields the format cannot carry are not compared"],
)

CHECKS["C17"] = dict(
    name="c17", harness=["checks/c17.c", "checks/c17_ops.c", "engine/vsched.c"], instrumented=["checks/c17_ops.c"],
    harness_by_config={"tsan": ["checks/c17_free.c", "checks/c17_ops.c"], "tsan-native": ["checks/c17_free.c", "checks/c17_ops.c"]},
    libs=LIBS_ALL, engine="E-sched", static_storage_audit=True,
    configs={"quick": ["tsanabi", "tsan", "tsanabi-native", "tsan-native"], "thorough": ["tsanabi", "tsan", "tsanabi-native", "tsan-native"]},
    shards={"tsanabi": 16, "tsan": 1, "tsanabi-native": 16, "tsan-native": 1},
    deadline={"quick": 600, "thorough": 3600},
    rule="operation alphabet of ~65 calls documented as pure (every scalar family, every array codec, packed arrays / bitstream / "
         "a private bitmap on disjoint storage) on three shared read-only inputs and private outputs; harnesses: every unordered "
         "pair {i, j}, i <= j, as two threads (the pair (i, i) forces a collision on any lazily built or static scratch state), "
         "one three-thread harness per operation, one 16-thread harness running every operation in 16 rotations, and 30 large "
         "operations (10 codecs x 12000-value dense / increasing / low-cardinality inputs) and 30 medium ones (2000 values) as "
         "two-thread pairs (quick: same codec or same input; thorough: all pairs and every large/medium x every fifth small "
         "operation), and 6 record operations (in-place adds on adjacent varint slots of one 8-byte aligned record, one owner "
         "thread per slot, every pair of distinct slots); per harness: solo "
         "runs, three serial orders (ascending, descending, switch at every function entry) with per-thread event-log and output "
         "equality, conflict computation over all memory events, then every schedule up to preemption bound 1 (quick) / 2 "
         "(thorough) over the choice points; class = (first operation of the pair)",
    explanation="stateless model checking under a controlled scheduler: real pthreads serialised by a baton, every compiler-"
                "instrumented memory access, mem* call, allocation, mutex and atomic operation of the library is an event; two "
                "events of different threads conflict if they overlap, one writes, they are not both atomic and share no lock; no "
                "conflict + schedule-independent per-thread paths => all interleavings are equivalent (DRF => SC), and schedules "
                "are still enumerated with iterative context bounding; separate free-running pass with the real ThreadSanitizer",
    technique="stateless model checking: preemption-bounded schedule enumeration over hooked memory events with measured independence",
    assumptions=["schedules are explored under sequential consistency; the step from 'no conflicting accesses' to 'all schedules' is "
                 "the standard independence argument, checked for path determinism but not mechanically proved",
                 "uninstrumented libc internals are covered only by the free-running ThreadSanitizer pass"],
)
