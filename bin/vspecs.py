"""Build configurations and per-property check specifications for vcheck."""

LIBS_SCALAR = ["varintTagged.c", "varintExternal.c", "varintExternalBigEndian.c", "varintChained.c",
               "varintChainedSimple.c", "varintElias.c"]
LIBS_ARRAY = ["varintDelta.c", "varintFOR.c", "varintPFOR.c", "varintGroup.c", "varintDict.c", "varintRLE.c",
              "varintElias.c", "varintBP128.c", "varintAdaptive.c", "varintBitmap.c", "varintFloat.c"]
LIBS_ALL = LIBS_SCALAR + LIBS_ARRAY

ASAN_ENV = {"ASAN_OPTIONS": "handle_segv=0:handle_sigbus=0:handle_abort=0:handle_sigfpe=0:allow_user_segv_handler=1:"
                            "detect_leaks=0:halt_on_error=0:detect_stack_use_after_return=0:print_summary=0:"
                            "max_allocation_size_mb=4096:allocator_may_return_null=1"}

CONFIGS = {
    # the effective flags of /repo/_build (RelWithDebInfo): what users run, asserts off
    "pinned": dict(cc="cc", cflags=["-std=gnu11", "-O2", "-g", "-DNDEBUG", "-fPIC", "-mtune=native"]),
    # unoptimised, asserts on (harness intercepts __assert_fail)
    "debug": dict(cc="cc", cflags=["-std=gnu11", "-O0", "-g", "-fPIC"]),
    # SIMD paths (AVX2 / AVX-512VL / F16C on this CPU)
    "native": dict(cc="cc", cflags=["-std=gnu11", "-O2", "-g", "-DNDEBUG", "-fPIC", "-march=native"]),
    # second, independent memory oracle
    "asan": dict(cc="clang", cflags=["-std=gnu11", "-O1", "-g", "-fsanitize=address", "-fsanitize-recover=address",
                                     "-fno-omit-frame-pointer", "-DVH_ASAN=1"], env=ASAN_ENV),
    "msan": dict(cc="clang", cflags=["-std=gnu11", "-O1", "-g", "-fsanitize=memory", "-fno-omit-frame-pointer",
                                     "-DVH_MSAN=1"],
                 env={"MSAN_OPTIONS": "halt_on_error=0:print_summary=0:handle_segv=0:handle_abort=0:"
                                      "allow_user_segv_handler=1"}),
}

SCALAR_RULE = ("complete enumeration of the value alphabet V64 (exhaustive prefix [0,2^P), boundary windows +-3 around "
               "every family boundary, the 5-symbols-per-byte product 5^8, byte sweeps, walking bits) through every "
               "entry point of every scalar family on the real code; a class is a distinct (family, entry point, "
               "encoded length, alignment) combination reached")

CHECKS = {}


def scalar(prop, rule, expl, dl_quick=100, dl_thorough=1500, configs=None):
    CHECKS[prop] = dict(
        name="scalar", harness=["checks/scalar.c"], libs=LIBS_SCALAR,
        configs=configs or {"quick": ["pinned", "debug", "asan"], "thorough": ["pinned", "debug", "asan", "native"]},
        shards={"pinned": 16, "debug": 8, "asan": 8, "native": 8},
        deadline={"quick": dl_quick, "thorough": dl_thorough},
        rule=rule, explanation=expl,
        assumptions=["reference encoders in /verif/ref are trusted (written from the documented formats)",
                     "2^64 values are covered exhaustively only below 2^P and over the stated alphabets beyond"],
    )


scalar("C01", SCALAR_RULE,
       "E-enum: every value of the alphabet is encoded by every entry point into a guard-page buffer at every "
       "alignment, decoded by every reader, and the four lengths compared; all bytes outside the encoding are "
       "checked unchanged under two backgrounds")
scalar("C04", SCALAR_RULE + "; oracle = independently written reference encoders, adjacent-pair length monotonicity",
       "E-enum with reference-encoder oracle: bytes equal the reference byte for byte, library decodes reference "
       "bytes, len(v) <= len(v+1) on every adjacent pair of the exhaustive prefix and boundary windows")
scalar("C05", "all adjacent pairs (v,v+1) of the exhaustive prefix and boundary windows (decides all pairs of the "
              "range by transitivity of a total order on prefix-free codewords), all ordered pairs over the reduced "
              "boundary alphabet, all pairs of 2- and 3-tuples over small alphabets; class = (len a, len b, first "
              "differing byte position)",
       "E-enum over pairs: sign(memcmp(enc a, enc b)) == sign(a-b)",
       configs={"quick": ["pinned"], "thorough": ["pinned", "debug"]})
scalar("C12", "all triples (stored value, width, amount) with stored value and target sum over the boundary alphabet "
              "(every sum on, below and above every width boundary upward and downward, every signed-overflow edge) "
              "x {grow, no-grow} x {tagged, external}; class = (family, mode, old width, new width, outcome)",
       "E-enum over triples against int64 reference arithmetic; slot followed by canaries and a guard page",
       configs={"quick": ["pinned", "debug"], "thorough": ["pinned", "debug", "asan"]})

HOOK_COMMITS = []

ENGINES = [
    {"name": "E-enum", "path": "engine/vh.h + checks/*.c", "serves_properties": ["C01", "C04", "C05", "C12"],
     "kind_free_text": "stateless exhaustive enumeration of explicit finite input alphabets on the real code, guard-page "
                       "sandbox, reference-encoder / reference-model oracles"},
]

ALL_PROPS = ["C%02d" % i for i in range(1, 19)]


def not_applicable():
    out = []
    for p in ALL_PROPS:
        if p not in CHECKS or not CHECKS[p].get("registered", True):
            out.append({"property_id": p, "reason": "check not built yet in this revision of /verif (planned, see DESIGN.md); "
                                                    "not claimed until both tiers have run end to end"})
    return out


NOT_APPLICABLE = not_applicable()
